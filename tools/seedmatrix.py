#!/usr/bin/env python3
"""Apply each seeded change of /verif/seeded/<id>/patch.diff to /repo, run the MANIFEST quick commands of the given
properties (default: the property the seed breaks), undo the change, and report which checks caught it.

usage: seedmatrix.py [seed ...] [--props C01,C02] [--all-props] [--own]
Refuses to run if the files a seed touches have uncommitted changes. Never commits anything in /repo."""
import json, os, subprocess, sys, time

seeds, props_override, all_props, own_only = [], None, False, False
args = sys.argv[1:]
while args:
    a = args.pop(0)
    if a == "--props":
        props_override = args.pop(0).split(",")
    elif a == "--all-props":
        all_props = True
    elif a == "--own":
        own_only = True
    else:
        seeds.append(a)
man = json.load(open("/verif/MANIFEST.json"))
cmds = {c["property_id"]: c["quick_cmd"] for c in man["checks"]}
if not seeds:
    seeds = sorted(os.listdir("/verif/seeded"))
env = dict(os.environ, VERIF_SEED="1", VERIF_TIER="quick", GOFLAGS="-mod=mod", GOPROXY="off", GOSUMDB="off", GOTOOLCHAIN="local")
results = {}
for s in seeds:
    d = f"/verif/seeded/{s}"
    patch = f"{d}/patch.diff"
    meta = json.load(open(f"{d}/meta.json"))
    files = [l[6:].strip() for l in open(patch) if l.startswith("+++ b/")]
    if subprocess.run(["git", "-C", "/repo", "diff", "--quiet", "--"] + files).returncode != 0:
        print(f"{s}: /repo has uncommitted changes in {files}: commit first"); sys.exit(2)
    props = props_override or ([p for p in cmds] if all_props else [meta.get("breaks_property", s[:3])] + ([] if own_only else meta.get("also_check", [])))
    if subprocess.run(["git", "-C", "/repo", "apply", patch]).returncode != 0:
        print(f"{s}: patch does not apply"); results[s] = "DOES-NOT-APPLY"; continue
    try:
        caught = []
        for p in props:
            if p not in cmds:
                print(f"{s}: property {p} has no check"); continue
            t = time.time()
            r = subprocess.run(cmds[p], shell=True, cwd="/verif", capture_output=True, text=True, env=env)
            v = [l for l in r.stdout.splitlines() if l.startswith("VIOLATION")]
            fo = [l.strip() for l in r.stdout.splitlines() if "failed obligation" in l or l.startswith("  BOUNDED-FAILURE") or "vacuous path" in l]
            print(f"{s} x {p}: exit {r.returncode}, {len(v)} violation line(s), {time.time()-t:.0f}s")
            for l in fo[:4]:
                print("     ", l[:230])
            if r.returncode == 1 and v:
                caught.append(p)
            elif r.returncode not in (0, 1):
                print("      (check broke)", r.stdout[-400:], r.stderr[-400:])
        results[s] = caught
    finally:
        subprocess.run(["git", "-C", "/repo", "apply", "-R", patch])
        ok = subprocess.run(["git", "-C", "/repo", "diff", "--quiet", "--"] + files).returncode == 0
        print(f"{s}: repo restored = {ok}")
print(json.dumps(results))
