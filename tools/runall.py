#!/usr/bin/env python3
"""Run every MANIFEST check (quick or thorough) on the current tree the way the harness does; report exit codes and times."""
import json, subprocess, time, os, sys
tier = sys.argv[1] if len(sys.argv) > 1 else "quick"
only = sys.argv[2].split(",") if len(sys.argv) > 2 else None
m = json.load(open('/verif/MANIFEST.json'))
bad = 0
for c in m['checks']:
    if only and c['property_id'] not in only:
        continue
    cmd = c['quick_cmd'] if tier == 'quick' else c.get('thorough_cmd', c['quick_cmd'])
    ev = c['evidence_file']
    if os.path.exists(ev):
        os.remove(ev)
    t = time.time()
    r = subprocess.run(cmd, shell=True, cwd='/verif', capture_output=True, text=True, env=dict(os.environ, VERIF_SEED='1', VERIF_TIER=tier))
    lines = [l for l in r.stdout.splitlines() if l.strip()]
    viol = [l for l in lines if l.startswith('VIOLATION')]
    ok = r.returncode == 0 and not viol and os.path.exists(ev)
    bad += 0 if ok else 1
    print(c['property_id'], tier, 'exit', r.returncode, '%.0fs' % (time.time() - t), 'viol', len(viol), 'evidence', os.path.exists(ev), '|', lines[-1][:140] if lines else '', flush=True)
    for v in viol[:5]:
        print('    ', v, flush=True)
    if not ok:
        for l in lines:
            if 'failed obligation' in l or 'BOUNDED-FAILURE' in l or 'ENGINE-ERROR' in l:
                print('    ', l[:260], flush=True)
print('BAD' if bad else 'ALL OK', bad)
