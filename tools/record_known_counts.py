#!/usr/bin/env python3
"""Run every govrac suite in one tier on the (unchanged) tree and record the size of each known class in KNOWN_FINDINGS.txt
(`quick=<n>` / `thorough=<n>` right after the bounded=... token). Run by hand after the known lines change; never run by a check."""
import re, subprocess, sys
tier = sys.argv[1] if len(sys.argv) > 1 else "quick"
counts = {}
for suite in ["ringseg", "lineline", "polypoly", "symmetry", "index"]:
    out = subprocess.run(["/verif/bin/govrac", "run", suite, "--tier", tier, "--seed", "1"], capture_output=True, text=True).stdout
    for l in out.splitlines():
        m = re.match(r"KNOWN-FINDING: property=(\S+) bounded (\S+?)/(\S+): (\d+) failing inputs", l)
        if m:
            counts[(m.group(1), m.group(2) + "/" + m.group(3))] = int(m.group(4))
    print(suite, "done", file=sys.stderr)
lines = open("/verif/KNOWN_FINDINGS.txt").read().split("\n")
for i, l in enumerate(lines):
    m = re.match(r"(known:\s+property=(\S+)\s+bounded=(\S+))\s+(.*)$", l)
    if not m:
        continue
    key = (m.group(2), m.group(3))
    rest = re.sub(r"\b%s=\d+\s+" % tier, "", m.group(4))
    n = counts.get(key, 0)
    # keep the other tier's token first if present
    lines[i] = f"{m.group(1)} {tier}={n} {rest}"
open("/verif/KNOWN_FINDINGS.txt", "w").write("\n".join(lines))
print(len(counts), "classes recorded for tier", tier)
