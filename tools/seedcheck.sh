#!/bin/bash
# usage: seedcheck.sh <ID> [srcdir]   -- confirm a seeded change in a fresh scratch worktree and store it under /verif/seeded/<ID>/
set -u
ID=$1; SRC=${2:-/tmp/wt/$ID/SEED_OUT}; NAME=${3:-$ID}
export GOFLAGS=-mod=mod GOPROXY=off GOSUMDB=off GOTOOLCHAIN=local
WT=$(mktemp -d /tmp/seedchk-XXXX); rmdir $WT
git -C /repo worktree add -q --detach $WT HEAD || exit 2
cleanup(){ git -C /repo worktree remove --force $WT; }
trap cleanup EXIT
DEMO=$SRC/zz_seed_demo_test.go
PKGLINE=$(grep -m1 '^package ' $DEMO | awk '{print $2}')
case $PKGLINE in geometry) DIR=geometry;; geo) DIR=geo;; geojson|geojson_test) DIR=.;; *) DIR=.;; esac
cd $WT
git apply $SRC/patch.diff || { echo "PATCH DOES NOT APPLY"; exit 1; }
go build ./... || { echo "DOES NOT COMPILE"; exit 1; }
SUITE=$(go test -vet=off -count=1 ./... 2>&1 | tail -5); echo "$SUITE"
echo "$SUITE" | grep -q FAIL && { echo "SUITE FAILS WITH CHANGE"; exit 1; }
cp $DEMO $DIR/zz_seed_demo_test.go
WITH=$(go test -vet=off -count=1 -run '^TestSeedDemo$' ./$DIR 2>&1 | tail -3)
echo "$WITH" | grep -q "^FAIL\|FAIL" || { echo "DEMO DOES NOT FAIL WITH CHANGE: $WITH"; exit 1; }
git apply -R $SRC/patch.diff
WITHOUT=$(go test -vet=off -count=1 -run '^TestSeedDemo$' ./$DIR 2>&1 | tail -3)
echo "$WITHOUT" | grep -q "^ok" || { echo "DEMO DOES NOT PASS WITHOUT CHANGE: $WITHOUT"; exit 1; }
mkdir -p /verif/seeded/$NAME
cp $SRC/patch.diff $DEMO /verif/seeded/$NAME/
[ -f $SRC/notes.txt ] && cp $SRC/notes.txt /verif/seeded/$NAME/
echo "CONFIRMED $NAME demo_dir=$DIR"
echo "$DIR" > /verif/seeded/$NAME/.demo_dir
