#!/bin/bash
# usage: runseed.sh <seedname> <PROP>...  -- apply a seeded change to /repo, run the checks, undo it (reverse-apply; untracked files are left alone)
S=$1; shift
FILES=$(grep '^+++ b/' /verif/seeded/$S/patch.diff | sed 's|^+++ b/||')
git -C /repo diff --quiet -- $FILES || { echo "/repo has uncommitted changes in the files the seed touches ($FILES): commit first"; exit 2; }
cd /repo && git apply /verif/seeded/$S/patch.diff || exit 2
for P in "$@"; do
  case $P in C16|C17) BIN=govframe;; *) BIN=govc;; esac
  (cd /verif && ./bin/$BIN check $P 2>&1 | grep -v "^KNOWN" | tail -${TAILN:-4})
done
git -C /repo apply -R /verif/seeded/$S/patch.diff; git -C /repo diff --quiet -- $FILES && echo "(repo restored)"
