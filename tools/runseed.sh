#!/bin/bash
# usage: runseed.sh <seedname> <PROP>...  -- apply a seeded change to /repo, run the checks, undo it
S=$1; shift
[ -z "$(git -C /repo status --porcelain)" ] || { echo "/repo is dirty: commit first"; exit 2; }
cd /repo && git apply /verif/seeded/$S/patch.diff || exit 2
for P in "$@"; do (cd /verif && ./bin/govc check $P 2>&1 | grep -v "^KNOWN" | tail -${TAILN:-4}; echo "exit=$?"); done
git -C /repo checkout -- . ; git -C /repo status --short
