#!/usr/bin/env python3
# Writes /verif/MANIFEST.json. The per-property texts live here so that they are edited in one place.
import json, subprocess

GOENV = "GOFLAGS=-mod=mod GOPROXY=off GOSUMDB=off GOTOOLCHAIN=local"
TECH = ("contract-based deductive verification: own weakest-precondition VC generator over go/ast+go/types for the real "
        "function bodies, contracts as //@ comments in *_verif.go, SMT (z3/cvc5), counterexample replay on the real code")
TECH_B = TECH + "; functions left as trusted leaves are additionally run against an exact oracle over enumerated small domains (labelled bounded, never counted as proved)"

hooks = subprocess.run(["git", "-C", "/repo", "log", "--format=%h", "--grep", "^verif hook"], capture_output=True, text=True).stdout.split()

def govc(pid, bounded=None):
    b = f" --bounded {bounded}" if bounded else ""
    return {
        "quick_cmd": f"./bin/govc check {pid} --tier quick{b}",
        "thorough_cmd": f"./bin/govc check {pid} --tier thorough{b}",
        "replay_cmd_template": "./bin/govc replay {path}",
        "engine": "govc",
    }

checks = []
def add(pid, text, note, ref, bounded=None, engine=None, cmds=None, tech=None):
    c = {"property_id": pid}
    c.update(cmds or govc(pid, bounded))
    c["evidence_file"] = f"/verif/evidence/{pid}.json"
    c["level_claimed"] = {"category": "proof", "text": text, "design_ref": ref}
    c["level_note"] = note
    c["technique"] = tech or (TECH_B if bounded else TECH)
    if engine:
        c["engine"] = engine
    checks.append(c)

add("C01",
    "Geometry level: ringContainsPoint (incl. the bounding-box pre-filter, via an even-crossings induction), its two Search callers, containsPointSearcher, Poly/Line/Rect/Point Contains/IntersectsPoint are proved against the property's own definition (on a boundary segment, or odd crossing parity; not strictly inside a hole) for rings of any length, all integer coordinates |v|<=2^20, any visiting order of the segment search. Index independence follows because callers only use the set-based Search protocol contract. Object level: Point/SimplePoint/LineString/Polygon/Rect/Feature Contains/Intersects/Within and their Spatial methods are proved against the dispatch normal forms (oContains/oIntersects/sp*), which bottom out in the geometry-level predicates.",
    "Assumes A-FLOAT/A-DIV/A-NUDGE/A-SCALE (kernels). The ring/line/poly invariants used as preconditions are established by the proved constructor contracts (makeSeries, newRing, NewLine, NewPoly); compressed R-tree/quadtree searches are proved against QWF/RWF; that the index builders establish QWF/RWF is a trusted contract (baseSeries.buildIndex) validated only by the bounded index suite of C04.",
    "DESIGN.md §5 C01")

add("C02",
    "Proved for all inputs in the exact domain: Segment.IntersectsSegment == exists s,t meet (C19), Line.IntersectsLine == some segment pair meets (both directions, any search order), Rect/Point/Line/Poly Intersects* methods against their set-level specifications (polyIntersectsLineS, polyIntersectsPolyS, rect as 5-point ring ...) including the hole rules' loop structure, and operand symmetry lemmas (lineIntersectsLineSym, geomSym*). The planar meaning of two leaves, ringContainsSegment (rcsS) and ringIntersectsSegment (risS), is NOT proved: their contracts are trusted and name uninterpreted results; for them the bounded suites ringseg/lineline/polypoly compare the real functions with an exact-rational oracle (exhaustive over the stated lattices).",
    "Partial proof + bounded stand-in. Trusted leaves: ringContainsSegment, ringIntersectsSegment (planar case analysis not expressible as a terminating SMT goal, DESIGN §0), Line.ContainsLine. The bounded part found genuine defects of ringIntersectsSegment(allowOnEdge=false) (listed in KNOWN_FINDINGS.txt by decision class). Bounds: rings of <=5 lattice vertices (+30 hand-picked up to 8), coordinates in [-1,7] halves; see evidence.bounded_stand_in.",
    "DESIGN.md §5 C02", bounded="ringseg,lineline,polypoly")

add("C03",
    "Proved for all inputs in the exact domain: Point/Rect receivers (ContainsPoint/Rect/Line/Poly) against exact containment via bounding-box lemmas; Poly.ContainsPoint (C01); the composition of Poly.ContainsLine/ContainsPoly/ContainsRect, Line.ContainsPoly/ContainsRect, ringContainsRing/ringContainsLine over the segment-level leaves (every loop, hole rule and the >=16-point shortcut recursion). The segment-level leaves ringContainsSegment/ringIntersectsSegment and Line.ContainsLine are trusted contracts over uninterpreted results; the bounded suites compare them (and the Poly.Contains* compositions) with the exact oracle.",
    "Partial proof + bounded stand-in. Genuine defects found by the bounded part and listed in KNOWN_FINDINGS.txt: F3 (Line.ContainsLine hangs), F4 (wrong answers of Line.ContainsLine), F5 family (ringContainsSegment on concave rings, both directions), strict ringIntersectsSegment contact cases, inscribed holes. Not repaired: they need different algorithms, not local patches.",
    "DESIGN.md §5 C03", bounded="ringseg,lineline,polypoly")

add("C04",
    "The search side is proved for all inputs: baseSeries.Search (linear), qCompressSearch and rCompressSearch/rnCompressSearch report exactly the segments whose rectangle meets the query (each once, early stop honoured) for every byte string satisfying the well-formedness predicates QWF / RWF; number encoding (appendNum/readNum/numBytes) proved inverse; quadrant geometry lemmas; callers see only the set-based protocol, so answers are index independent. That buildIndex produces bytes satisfying QWF/RWF is a TRUSTED contract; the bounded index suite observes the builders through Search against brute force.",
    "Proof of the readers + bounded stand-in for the builders (qNode.insert/compress, rTree build have only thin safety contracts). Bounds of the stand-in: 17 series sizes up to 4096 (thorough 70000) x 7 layouts x kinds x MinPoints x ~44 query rectangles.",
    "DESIGN.md §5 C04", bounded="index")

add("C05",
    "Proved: Parse/parseJSON and all nine type parsers return (object,nil) or (nil,error) (result shape) with every nil-dereference / index / type-assertion obligation on the modelled paths discharged; loop measures for the whitespace loop and every counted loop under contract; recursion measures for the compressed-index searches, ringContainsRing and Circle.Contains/Intersects; nil-guard obligations of Empty/Rect/Valid/NumPoints of all leaf kinds and collections; thin (safety-only) contracts for the remaining query methods of every kind (DistancePoint/Rect/Line/Poly, Distance(obj), Center, accessors: generated by tools/gen_safety_contracts.py, 53 methods) and for the JSON writers (AppendJSON/JSON/String/MarshalJSON of Point, SimplePoint, LineString, Polygon, Rect, Circle, Feature, MultiPoint, MultiLineString, MultiPolygon, GeometryCollection, FeatureCollection and the helpers appendJSONPoint/Series/Extra) under the ownership invariant of the extra coordinate values (WriteInv). Every contract function's safety obligations (bounds, nil, type assertion, division) are part of its proof. Termination of the recursion cycle Parse -> parseJSON -> parseJSONFeature/GeometryCollection/FeatureCollection -> Parse is proved with lexicographic measures over the text length (relative to A-GJSON: a member's raw text is strictly shorter than its parent's). NOT proved: Line.ContainsLine (trusted; known hang F3 found by the bounded lineline suite), recursion through interface dispatch (ForEach/Contains over the object tree: axiom ATree), polynomial time.",
    "Partial. gjson/pretty/sjson/rtree/strconv are external assumed contracts (A-GJSON, A-RTREE). parseJSONLineStringCoords/parseJSONPolygonCoords trusted. Not under contract: NewMultiPolygon, four float helpers of package geo (BearingTo, RectFromCenter, DegsToSemi, SemiToDegs), the index builders (rTree/rRect insert/split, qNode: trusted, bounded index suite). WriteInv is established by the constructors under contract and by the Point parser (parseJSONPoint#post.Writable); for the other parsed kinds it is a stated precondition. The bounded lineline suite (watchdog per call) stands in for Line.ContainsLine termination and reports F3 as a known finding.",
    "DESIGN.md §5 C05", bounded="lineline,index")

add("C07",
    "Proved clauses only (all relative to the assumed gjson accessors and the trusted coordinate decoders): Parse returns (object,nil) or (nil,error) for every text and every ParseOptions, rejects the empty text, and terminates (measure over the text length); an accepted LineString has at least two positions; an accepted Polygon has an exterior ring, every ring has at least four positions and first == last (the rings of the object are position-for-position the decoded ones: model clauses of NewLine/NewPoly/newRing); a Polygon parses to *Polygon or (AllowRects) *Rect; every member of an accepted MultiLineString / MultiPolygon obeys the same line / ring rules; a decoded position comes from a JSON array (the obligation that exposed finding F14, fixed by f45f017), keeps at most two extra ordinates and has exactly dims values; the required member of MultiPoint/MultiLineString/MultiPolygon/GeometryCollection/FeatureCollection exists and is an array, a Feature has a geometry member (gjson's Exists/IsArray as uninterpreted but named accessors); the nine type parsers return the kind they are named after. NOT proved: that the decoded numbers equal those of a standard JSON decoder, duplicate-member semantics, the type-member rules, trailing-text rejection (gjson.Valid is an uninterpreted dependency), and the 'is accepted' direction.",
    "PARTIAL: this is the subset of the property that is expressible as postconditions of the Go parsers; the text-level half (what gjson returns for a given text) is assumed (A-GJSON), so the check decides the structural rejection rules implemented in Go, not the JSON reading itself.",
    "DESIGN.md §5 C07")

add("C08",
    "Proved: toGeometryOpts maps ParseOptions to index options only; RequireValid: Parse/parseJSON return a valid object under RequireValid for Point, SimplePoint, LineString, Polygon, Rect, MultiPoint, MultiLineString, MultiPolygon (parseJSONMultiPoint fully under contract incl. frames - this is the obligation that failed before fix 3b4853f); the Circle recognition path of parseJSONFeature is under contract for both point representations. Index independence is carried by the protocol contracts that this check also discharges (compressed segment searches and number codec of C04, collection.Search on both paths and parseInitRectIndex of C10: callers see only the set-based protocol); no relational two-run statement is generated. The index BUILDERS are trusted leaves; the bounded index suite (identical Search answers under index kinds None/QuadTree/RTree and thresholds 1, n, n+1, 64, against brute force) stands in for them. RequireValid through Feature/GeometryCollection/FeatureCollection (needs a two-state frame over the object tree).",
    "Partial: single-run postconditions only; the relational (two ParseOptions, same document) reading of the property is not expressible as one function contract in this framework. parse*Coords helpers trusted.",
    "DESIGN.md §5 C08", bounded="index")

add("C09",
    "Proved: every Object/Spatial method of the leaf kinds, Feature, Circle and collection (incl. methods promoted into MultiPoint, MultiLineString, MultiPolygon, GeometryCollection, FeatureCollection) refines the interface contracts (behavioural subtyping obligations, 621) phrased over the model functions oContains/oIntersects/sp*; Within == Contains swapped by construction; symmetry of oIntersects for all 25 leaf pairs and one level of Feature wrapping (symLeaf/symGeom); Feature and SimplePoint/Point transparency lemmas; Rect == its 5-point polygon (rectRingPip and corollaries); intersects => rectangles meet and contains => rectangle covers for the listed pairs.",
    "Relative to the geometry-level leaves rcsS/risS/lclS (trusted, see C02/C03), axioms geomSymRisAny (ring/ring symmetry of the uninterpreted leaf), ATree/ATreeFt (objects are finite trees), A*Obj interface requirements of children. Known findings (suppressed only while the recorded input still fails): F10 collection.Contains(Feature(X)) vs Contains(X); X1 Point.Intersects(Feature(Circle)). Inverted rectangles (Min>Max) are outside ObjInv.",
    "DESIGN.md §5 C09")

add("C10",
    "Proved for all collections (any number/kind of children, nested, empty children): collection.Search reports exactly the non-empty children whose rectangle meets the query, once, early stop - on BOTH paths: the linear scan, and the child R-tree path (nested iteration protocol: the forwarding literal maps tree items to child indices; relative to the assumed contract of github.com/tidwall/rtree Search/Insert); Intersects/Contains/Within* equal the property's composition laws (recursive folds over children and ForEach parts); Empty/Rect/NumPoints/Valid; parseInitRectIndex establishes pempty/prect/tree (CollInv) incl. the single-child branch and the index threshold; constructors NewGeometryCollection/NewFeatureCollection/NewMultiPoint establish CollInv; ForEach protocols of all kinds.",
    "A-RTREE: github.com/tidwall/rtree is not verified: extern contracts for Insert (adds the item, count+1) and Search (reports exactly the items whose box meets the query), axiom ARTreeBuilt (a fresh tree that received every non-empty child and whose item count equals their number holds exactly those). Axioms: AFrameKid (writes to the collection under construction do not change its children's models - needs induction over object-tree depth), A*Point/Rect/Line/Poly/Obj (children's predicates imply rectangle overlap: consequence of the geometry contracts for leaves). NewMultiLineString/NewMultiPolygon not under contract.",
    "DESIGN.md §5 C10")

add("C11",
    "Proved, order mode (every finite float): Valid/Empty/Rect/Center/NumPoints of Point, Rect, Line, Poly, baseSeries at geometry level against min/max/all-in-range folds; constructors establish the bounding box (bboxOf) - makeSeries/newRing/NewLine/NewPoly incl. order-mode variants; object level Empty/Rect/Valid/NumPoints of Point, SimplePoint, Rect, LineString, Polygon, Feature, Circle and collections (Valid == all children valid after fix a3b9933; Rect == union of non-empty children).",
    "Circle's rectangle is that of its polygon approximation (makeCircleObject trusted). A-ORDER.",
    "DESIGN.md §5 C11")

add("C12",
    "Proved (exact arithmetic, all inputs): translation, scaling by two, endpoint swap, operand swap and the three reflections for the kernels cross/onSeg/meet/zcross and rectangle predicates; translation/scaling for rayIn; lifted to segsMeetS, Line x Line (lineXLineSym, lineIntersectsLineSym); Move of Point/Rect/Segment, baseSeries.Move (the moved series holds exactly the translated points, keeps its closed flag, its rectangle is the box of the translated points and its index invariant holds) and Line.Move, Poly.Move (every ring of the result is the translate of its source ring and satisfies the ring invariant again; the non-baseSeries branches are proved unreachable under the precondition that the rings are the library's own series); the Polygon parser's rectangle shortcut is taken only for the exact corner sequence of that rectangle (RectExact); start-vertex/closing-vertex independence of the convexity and orientation flags (C18 bridge lemmas). Re-encoding invariance of the ring/polygon predicates themselves (start vertex, direction, closing vertex) is NOT proved: it rests on the trusted leaves; the bounded symmetry suite applies 13 transformations to sampled scenes.",
    "Partial proof + bounded stand-in (symmetry suite, oracle-free metamorphic comparison). Known: Line.ContainsLine changes its answer under reversal (F3/F4). That a rebuilt index answers like the old one rests on the trusted index builders (bounded index suite, Search.afterMove).",
    "DESIGN.md §5 C12", bounded="symmetry")

add("C13",
    "Proved, abstract arithmetic (geo.Haversine etc. as uninterpreted monotone functions): Circle.Contains/Intersects dispatch incl. Point/SimplePoint exact tests, circle/circle conditions (contains: d + rB <= rA after fix 4380854; intersects: d <= rA + rB), Feature and Collection cases with recursion measure; monotonicity in the radius (circleMonotone*); NewCircle wiring (steps clamp, haversine), Circle accessors, Valid/Rect/Spatial via the polygon approximation; representation independence Point vs SimplePoint (after fix 25d174d).",
    "Numeric facts about the spherical kernels are axioms (ANormalizeId, ADistanceToHaversineMono/Zero) and trusted pureas contracts of geo.*; makeCircleObject trusted (shape of the polygon approximation, serialisation round trip not covered). Known finding X1 (point vs Feature-wrapped circle).",
    "DESIGN.md §5 C13")

# C16 / C17: the frame checker (govframe, go/ssa) decides the frame clauses; C17 additionally runs the govc obligations tagged C17
# (JSON writers, NewFeature member rule) and merges both into one evidence file (`govc check --frame`)
_old = {c["property_id"]: c for c in json.load(open("/verif/MANIFEST.json"))["checks"]}
checks.append(_old["C16"])
c17 = dict(_old["C17"])
c17["quick_cmd"] = "./bin/govc check C17 --tier quick --frame"
c17["thorough_cmd"] = "./bin/govc check C17 --tier thorough --frame"
c17["engine"] = "govc"
c17["level_claimed"] = dict(c17["level_claimed"])
if "Also (govc)" not in c17["level_claimed"]["text"]:
    c17["level_claimed"]["text"] += " Also (govc): the JSON writers of every kind and their helpers are panic-free under the ownership invariant of the extra coordinate values (WriteInv), JSON()/String()/MarshalJSON() are AppendJSON(nil) converted, and NewFeature never stores the empty object text as members (the rule whose violation was finding F7: `,,` in the output)."
c17["technique"] = TECH + "; frame clauses by a modular effect analysis over go/ssa (govframe), merged into the same evidence"
checks.append(c17)

add("C18",
    "processPoints is proved against a cyclic-sequence specification (convex iff all cyclic turns have one sign; clockwise iff the shoelace sum is positive) for point sequences of any length, open or explicitly closed, via code-level fold invariants and bridging lemmas to the property-level cyclic definitions; makeSeries stores the flags; Convex()/Clockwise() accessors.",
    "A-FLOAT (exact products/sums below 2^53 are an explicit precondition ExactSums).",
    "DESIGN.md §5 C18")
add("C19",
    "Segment.Raycast, Segment.IntersectsSegment, Segment.ContainsPoint/ContainsSegment, Rect helpers proved against exact real-arithmetic specifications (onSeg, rayIn half-open rule, meet with parametric witnesses) for all integer coordinates |v|<=2^20.",
    "A-FLOAT/A-DIV/A-NUDGE/A-SCALE.",
    "DESIGN.md §5 C19")

order = ["C01","C02","C03","C04","C05","C07","C08","C09","C10","C11","C12","C13","C16","C17","C18","C19"]
checks.sort(key=lambda c: order.index(c["property_id"]))

manifest = {
    "version": 1,
    "setup_cmd": " && ".join(f"cd /verif/{d} && {GOENV} go build -o /verif/bin/{d} ." for d in ["govc", "govframe", "govrac"]),
    "hooks": {
        "guard": "verif",
        "enable": "go build -tags verif (contract files are comment-only *_verif.go files behind //go:build verif; the checkers read them as text)",
        "baseline_off_cmd": "cd /repo && go test -vet=off -count=1 ./...",
        "source_commits": hooks,
        "add_only": True,
    },
    "engines": [
        {"name": "govc", "path": "/verif/govc", "serves_properties": [c["property_id"] for c in checks if c.get("engine") == "govc"],
         "kind_free_text": "own VC generator over go/ast+go/types for the real function bodies in /repo + //@ contracts in *_verif.go; obligations discharged by z3 5.1.0 / z3 4.8.12 / cvc5 1.0.3 (raced; sound abstractions tried first); sat models replayed on the real code with go test -overlay"},
        {"name": "govframe", "path": "/verif/govframe", "serves_properties": ["C16", "C17"],
         "kind_free_text": "modular frame/effect checker over go/ssa: discharges assigns-nothing contracts per store/call site"},
        {"name": "govrac", "path": "/verif/govrac", "serves_properties": ["C02", "C03", "C04", "C05", "C12"],
         "kind_free_text": "bounded stand-in only (never counted as proved): run-time checking of the real trusted-leaf functions against an exact-rational planar oracle over enumerated small domains, per-call watchdog; invoked by govc check --bounded"},
    ],
    "checks": checks,
    "not_applicable": [
        {"property_id": "C06", "reason": "byte-level inverse through gjson/pretty/strconv: no contract within reach expresses it (DESIGN §5 C06)"},
        {"property_id": "C14", "reason": "binary64 trigonometry with tolerances: outside contract-based deductive verification (machine floating point is not modelled; only exact/order/abstract arithmetic modes) (DESIGN §5 C14)"},
        {"property_id": "C15", "reason": "binary64 trigonometry with tolerances: outside contract-based deductive verification (DESIGN §5 C15)"},
    ],
}
json.dump(manifest, open("/verif/MANIFEST.json", "w"), indent=1, ensure_ascii=False)
print("checks:", [c["property_id"] for c in checks])
