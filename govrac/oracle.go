package main

// oracle.go -- the exact planar oracle of the bounded stand-in (assumption A-ORACLE,
// DESIGN.md 9.2).  Self-contained: imports only math/big, sort, fmt; every identifier
// starts with "o"/"O" followed by an upper-case letter or is a method of such a type,
// so that govrac can copy this file VERBATIM (package clause rewritten to `geometry`)
// into the overlay of the generated in-package test without colliding with the library.
//
// Numbers (oNum) are exact rationals: an int64 fraction while numerator and denominator
// stay below 2^31 in magnitude (after gcd reduction), otherwise a math/big.Rat.  Every
// operation is exact for every input; the small form is only an accelerator and is
// cross-checked against big.Rat by the unit tests (oracle_test.go: TestONumAgainstBigRat).
//
// Point sets (DESIGN 5, C01/C02/C03):
//   ring segments  : library rule -- a closed series of n points has segments (i,i+1) plus the
//                    implicit closing segment exactly when last != first; n < 3 => no segments
//   onSeg(a,b,p)   : cross(a,b,p)==0 and p in the closed bounding box of a,b
//   rayIn(a,b,p)   : !onSeg && ((a.Y<=p.Y) != (b.Y<=p.Y)) && (b.Y>a.Y ? cross>0 : cross<0)
//   pipClosed(R,p) : on some segment of R, or an odd number of segments with rayIn
//   pipOpen(R,p)   : on no segment of R, and an odd number of segments with rayIn
//   polyHas(P,p)   : pipClosed(P.Ext,p) and !pipOpen(H,p) for every hole H
//   lineHas(L,p)   : on some segment of L (open series: segments (i,i+1), n < 2 => none)
// "forall/exists t in [0,1]" over a segment B against a region with a finite edge set E is
// decided by the critical-parameter method: T = {0,1} + every parameter where B meets an
// edge of E (both ends of a collinear overlap); membership is evaluated at every t in T and
// at the midpoint of every two consecutive elements of T.

import (
	"fmt"
	"math/big"
	"sort"
)

// ---------------------------------------------------------------- exact numbers

type oNum struct {
	n, d int64    // value n/d, d > 0, when r == nil
	r    *big.Rat // non-nil: the value (n, d unused)
}

const oSmallLimit = int64(1) << 31

func oFits(x int64) bool { return x > -oSmallLimit && x < oSmallLimit }

func oGcd(a, b int64) int64 {
	if a < 0 {
		a = -a
	}
	if b < 0 {
		b = -b
	}
	for b != 0 {
		a, b = b, a%b
	}
	return a
}

func oInt(v int64) oNum { return oNum{n: v, d: 1} }

// oFrac returns n/d (d != 0).
func oFrac(n, d int64) oNum {
	if d == 0 {
		panic("oFrac: zero denominator")
	}
	if n == -n && n != 0 || d == -d { // math.MinInt64
		return oNum{r: new(big.Rat).SetFrac(big.NewInt(n), big.NewInt(d))}
	}
	if d < 0 {
		n, d = -n, -d
	}
	return oNum{n: n, d: d}
}

// oFromFloat converts a finite float64 exactly (quarter-integers of small magnitude take the
// int64 form, everything else goes through big.Rat.SetFloat64, which is exact).
func oFromFloat(f float64) oNum {
	if f != f || f > 1.7976931348623157e308 || f < -1.7976931348623157e308 {
		panic(fmt.Sprintf("oFromFloat: not finite: %v", f))
	}
	if f > -1e9 && f < 1e9 {
		g := f * 4
		if i := int64(g); float64(i) == g {
			switch {
			case i%4 == 0:
				return oNum{n: i / 4, d: 1}
			case i%2 == 0:
				return oNum{n: i / 2, d: 2}
			}
			return oNum{n: i, d: 4}
		}
	}
	return oNum{r: new(big.Rat).SetFloat64(f)}
}

func (a oNum) rat() *big.Rat {
	if a.r != nil {
		return a.r
	}
	return new(big.Rat).SetFrac(big.NewInt(a.n), big.NewInt(a.d))
}

// reduce brings a small fraction to lowest terms when a component does not fit 31 bits.
func (a oNum) reduce() oNum {
	if a.r != nil || (oFits(a.n) && oFits(a.d)) {
		return a
	}
	g := oGcd(a.n, a.d)
	if g > 1 {
		a.n /= g
		a.d /= g
	}
	return a
}

// oSmallPair prepares two operands for the int64 fast path.
func oSmallPair(a, b oNum) (oNum, oNum, bool) {
	if a.r != nil || b.r != nil {
		return a, b, false
	}
	a = a.reduce()
	b = b.reduce()
	if oFits(a.n) && oFits(a.d) && oFits(b.n) && oFits(b.d) {
		return a, b, true
	}
	return a, b, false
}

func (a oNum) add(b oNum) oNum {
	if x, y, ok := oSmallPair(a, b); ok {
		if x.d == y.d {
			return oNum{n: x.n + y.n, d: x.d}
		}
		return oNum{n: x.n*y.d + y.n*x.d, d: x.d * y.d}
	}
	return oNum{r: new(big.Rat).Add(a.rat(), b.rat())}
}

func (a oNum) neg() oNum {
	if a.r != nil {
		return oNum{r: new(big.Rat).Neg(a.r)}
	}
	if a.n == -a.n && a.n != 0 {
		return oNum{r: new(big.Rat).Neg(a.rat())}
	}
	return oNum{n: -a.n, d: a.d}
}

func (a oNum) sub(b oNum) oNum {
	if x, y, ok := oSmallPair(a, b); ok {
		if x.d == y.d {
			return oNum{n: x.n - y.n, d: x.d}
		}
		return oNum{n: x.n*y.d - y.n*x.d, d: x.d * y.d}
	}
	return oNum{r: new(big.Rat).Sub(a.rat(), b.rat())}
}

func (a oNum) mul(b oNum) oNum {
	if x, y, ok := oSmallPair(a, b); ok {
		return oNum{n: x.n * y.n, d: x.d * y.d}
	}
	return oNum{r: new(big.Rat).Mul(a.rat(), b.rat())}
}

// quo returns a/b (b != 0).
func (a oNum) quo(b oNum) oNum {
	if b.sign() == 0 {
		panic("oNum.quo: division by zero")
	}
	if x, y, ok := oSmallPair(a, b); ok {
		n, d := x.n*y.d, x.d*y.n
		if d < 0 {
			n, d = -n, -d
		}
		return oNum{n: n, d: d}
	}
	return oNum{r: new(big.Rat).Quo(a.rat(), b.rat())}
}

func (a oNum) half() oNum { return a.mul(oNum{n: 1, d: 2}) }

func (a oNum) sign() int {
	if a.r != nil {
		return a.r.Sign()
	}
	switch {
	case a.n < 0:
		return -1
	case a.n > 0:
		return 1
	}
	return 0
}

func (a oNum) cmp(b oNum) int { return a.sub(b).sign() }
func (a oNum) eq(b oNum) bool { return a.cmp(b) == 0 }
func (a oNum) lt(b oNum) bool { return a.cmp(b) < 0 }
func (a oNum) le(b oNum) bool { return a.cmp(b) <= 0 }

func (a oNum) String() string {
	r := a.rat()
	if r.IsInt() {
		return r.Num().String()
	}
	return r.RatString()
}

func oMin(a, b oNum) oNum {
	if b.lt(a) {
		return b
	}
	return a
}

func oMax(a, b oNum) oNum {
	if a.lt(b) {
		return b
	}
	return a
}

// ---------------------------------------------------------------- points, segments, series

type oPt struct{ X, Y oNum }

type oSeg struct{ A, B oPt }

// oRing is a closed series as handed to the library (with or without repeated closing vertex).
type oRing []oPt

// oLine is an open series.
type oLine []oPt

type oPoly struct {
	Ext   oRing
	Holes []oRing
}

func oP(x, y float64) oPt { return oPt{oFromFloat(x), oFromFloat(y)} }

func (p oPt) eq(q oPt) bool { return p.X.eq(q.X) && p.Y.eq(q.Y) }

func (p oPt) String() string { return "(" + p.X.String() + "," + p.Y.String() + ")" }

func (s oSeg) String() string { return s.A.String() + "-" + s.B.String() }

// oCross is (b-a) x (p-a).
func oCross(a, b, p oPt) oNum {
	return b.X.sub(a.X).mul(p.Y.sub(a.Y)).sub(b.Y.sub(a.Y).mul(p.X.sub(a.X)))
}

func oInBox(a, b, p oPt) bool {
	return oMin(a.X, b.X).le(p.X) && p.X.le(oMax(a.X, b.X)) &&
		oMin(a.Y, b.Y).le(p.Y) && p.Y.le(oMax(a.Y, b.Y))
}

// oOnSeg: p lies on the closed segment a-b (a == b allowed: then p == a).
func oOnSeg(a, b, p oPt) bool {
	return oCross(a, b, p).sign() == 0 && oInBox(a, b, p)
}

// oRayIn is the half-open crossing rule of the C01 contract (spec function rayIn).
func oRayIn(a, b, p oPt) bool {
	if oOnSeg(a, b, p) {
		return false
	}
	if a.Y.le(p.Y) == b.Y.le(p.Y) {
		return false
	}
	c := oCross(a, b, p).sign()
	if a.Y.lt(b.Y) {
		return c > 0
	}
	return c < 0
}

// oRingSegs lists the segments of a closed series by the library's rule.
func oRingSegs(r oRing) []oSeg {
	n := len(r)
	if n < 3 {
		return nil
	}
	var segs []oSeg
	for i := 0; i+1 < n; i++ {
		segs = append(segs, oSeg{r[i], r[i+1]})
	}
	if !r[n-1].eq(r[0]) {
		segs = append(segs, oSeg{r[n-1], r[0]})
	}
	return segs
}

// oLineSegs lists the segments of an open series.
func oLineSegs(l oLine) []oSeg {
	var segs []oSeg
	for i := 0; i+1 < len(l); i++ {
		segs = append(segs, oSeg{l[i], l[i+1]})
	}
	return segs
}

// oRectRing is the library's view of a Rect as a ring (5 points).
func oRectRing(minX, minY, maxX, maxY oNum) oRing {
	return oRing{{minX, minY}, {maxX, minY}, {maxX, maxY}, {minX, maxY}, {minX, minY}}
}

// ---------------------------------------------------------------- membership

// oClassify returns (on boundary, odd parity) of p against a set of ring segments.
func oClassify(segs []oSeg, p oPt) (on bool, odd bool) {
	for _, s := range segs {
		if oOnSeg(s.A, s.B, p) {
			on = true
		} else if oRayIn(s.A, s.B, p) {
			odd = !odd
		}
	}
	return on, odd
}

func oPipClosed(r oRing, p oPt) bool {
	on, odd := oClassify(oRingSegs(r), p)
	return on || odd
}

func oPipOpen(r oRing, p oPt) bool {
	on, odd := oClassify(oRingSegs(r), p)
	return !on && odd
}

func oPolyHas(P oPoly, p oPt) bool {
	if !oPipClosed(P.Ext, p) {
		return false
	}
	for _, h := range P.Holes {
		if oPipOpen(h, p) {
			return false
		}
	}
	return true
}

func oLineHas(l oLine, p oPt) bool {
	for _, s := range oLineSegs(l) {
		if oOnSeg(s.A, s.B, p) {
			return true
		}
	}
	return false
}

func oPolyEdges(P oPoly) []oSeg {
	segs := oRingSegs(P.Ext)
	for _, h := range P.Holes {
		segs = append(segs, oRingSegs(h)...)
	}
	return segs
}

// ---------------------------------------------------------------- segment / segment

// oSegMeet: the closed segments share at least one point (zero-length segments are points).
func oSegMeet(s, e oSeg) bool {
	d1 := oCross(e.A, e.B, s.A).sign()
	d2 := oCross(e.A, e.B, s.B).sign()
	d3 := oCross(s.A, s.B, e.A).sign()
	d4 := oCross(s.A, s.B, e.B).sign()
	if d1*d2 < 0 && d3*d4 < 0 {
		return true
	}
	return oOnSeg(e.A, e.B, s.A) || oOnSeg(e.A, e.B, s.B) ||
		oOnSeg(s.A, s.B, e.A) || oOnSeg(s.A, s.B, e.B)
}

// oAt returns s.A + t*(s.B-s.A).
func oAt(s oSeg, t oNum) oPt {
	return oPt{s.A.X.add(t.mul(s.B.X.sub(s.A.X))), s.A.Y.add(t.mul(s.B.Y.sub(s.A.Y)))}
}

// oParamOf returns the parameter of a point p known to lie on the line through s (s.A != s.B).
func oParamOf(s oSeg, p oPt) oNum {
	dx, dy := s.B.X.sub(s.A.X), s.B.Y.sub(s.A.Y)
	num := p.X.sub(s.A.X).mul(dx).add(p.Y.sub(s.A.Y).mul(dy))
	den := dx.mul(dx).add(dy.mul(dy))
	return num.quo(den)
}

// oMeetParams returns the parameters t in [0,1] at which s(t) lies on the closed segment e:
// nothing, one parameter, or the two ends of a collinear overlap.
func oMeetParams(s, e oSeg) []oNum {
	ts, n := oMeetParams2(s, e)
	return append([]oNum(nil), ts[:n]...)
}

// oMeetParams2 is oMeetParams without allocation: the first n entries of the array are valid.
func oMeetParams2(s, e oSeg) (ts [2]oNum, n int) {
	zero, one := oInt(0), oInt(1)
	if s.A.eq(s.B) {
		if oOnSeg(e.A, e.B, s.A) {
			ts[0] = zero
			return ts, 1
		}
		return ts, 0
	}
	ca := oCross(e.A, e.B, s.A)
	cb := oCross(e.A, e.B, s.B)
	if !ca.eq(cb) {
		// the line of e is crossed at exactly one parameter
		t := ca.quo(ca.sub(cb))
		if t.sign() < 0 || one.lt(t) {
			return ts, 0
		}
		if oInBox(e.A, e.B, oAt(s, t)) {
			ts[0] = t
			return ts, 1
		}
		return ts, 0
	}
	// e is parallel to s, or e is a single point
	if oCross(s.A, s.B, e.A).sign() != 0 || oCross(s.A, s.B, e.B).sign() != 0 {
		return ts, 0
	}
	ta, tb := oParamOf(s, e.A), oParamOf(s, e.B)
	lo, hi := oMax(oMin(ta, tb), zero), oMin(oMax(ta, tb), one)
	if hi.lt(lo) {
		return ts, 0
	}
	ts[0], ts[1] = lo, hi
	return ts, 2
}

type oNumSlice []oNum

func (x oNumSlice) Len() int           { return len(x) }
func (x oNumSlice) Less(i, j int) bool { return x[i].lt(x[j]) }
func (x oNumSlice) Swap(i, j int)      { x[i], x[j] = x[j], x[i] }

// oCritical returns the sorted distinct critical parameters of s against the edge set.
func oCritical(s oSeg, edges []oSeg) []oNum {
	ts := make([]oNum, 2, 2+2*len(edges))
	ts[0], ts[1] = oInt(0), oInt(1)
	for _, e := range edges {
		m, n := oMeetParams2(s, e)
		ts = append(ts, m[:n]...)
	}
	sort.Sort(oNumSlice(ts))
	out := ts[:1]
	for _, t := range ts[1:] {
		if !t.eq(out[len(out)-1]) {
			out = append(out, t)
		}
	}
	return out
}

// oSamples returns the evaluation points of the critical-parameter method.
func oSamples(s oSeg, edges []oSeg) []oPt {
	if s.A.eq(s.B) {
		return []oPt{s.A}
	}
	ts := oCritical(s, edges)
	var pts []oPt
	for i, t := range ts {
		pts = append(pts, oAt(s, t))
		if i+1 < len(ts) {
			pts = append(pts, oAt(s, t.add(ts[i+1]).half()))
		}
	}
	return pts
}

func oAll(pts []oPt, member func(oPt) bool) bool {
	for _, p := range pts {
		if !member(p) {
			return false
		}
	}
	return true
}

func oAny(pts []oPt, member func(oPt) bool) bool {
	for _, p := range pts {
		if member(p) {
			return true
		}
	}
	return false
}

// ---------------------------------------------------------------- ring vs segment

// oRingSegAnswers evaluates the four ring/segment questions at once:
//
//	inClosed : every point of s is in the closed region      (ringContainsSegment, allowOnEdge=true)
//	inOpen   : every point of s is strictly inside           (ringContainsSegment, allowOnEdge=false)
//	meetsClosed : some point of s is in the closed region    (ringIntersectsSegment, allowOnEdge=true)
//	meetsOpen   : some point of s is strictly inside         (ringIntersectsSegment, allowOnEdge=false)
func oRingSegAnswers(r oRing, s oSeg) (inClosed, inOpen, meetsClosed, meetsOpen bool) {
	return oRingSegAnswersOf(oRingSegs(r), s)
}

// oRingSegAnswersOf is oRingSegAnswers on the precomputed segment list oRingSegs(r).
func oRingSegAnswersOf(segs []oSeg, s oSeg) (inClosed, inOpen, meetsClosed, meetsOpen bool) {
	if len(segs) == 0 {
		return false, false, false, false
	}
	inClosed, inOpen = true, true
	for _, p := range oSamples(s, segs) {
		on, odd := oClassify(segs, p)
		closed, open := on || odd, !on && odd
		inClosed = inClosed && closed
		inOpen = inOpen && open
		meetsClosed = meetsClosed || closed
		meetsOpen = meetsOpen || open
	}
	return
}

func oRingContainsSeg(r oRing, s oSeg, closed bool) bool {
	a, b, _, _ := oRingSegAnswers(r, s)
	if closed {
		return a
	}
	return b
}

func oRingMeetsSeg(r oRing, s oSeg, closed bool) bool {
	_, _, c, d := oRingSegAnswers(r, s)
	if closed {
		return c
	}
	return d
}

// ---------------------------------------------------------------- polygon vs segment / line

func oPolyEmpty(P oPoly) bool { return len(P.Ext) < 3 }

func oPolyContainsSeg(P oPoly, s oSeg) bool {
	if oPolyEmpty(P) {
		return false
	}
	return oAll(oSamples(s, oPolyEdges(P)), func(p oPt) bool { return oPolyHas(P, p) })
}

func oPolyMeetsSeg(P oPoly, s oSeg) bool {
	if oPolyEmpty(P) {
		return false
	}
	return oAny(oSamples(s, oPolyEdges(P)), func(p oPt) bool { return oPolyHas(P, p) })
}

func oPolyContainsLine(P oPoly, l oLine) bool {
	if oPolyEmpty(P) || len(l) < 2 {
		return false
	}
	for _, s := range oLineSegs(l) {
		if !oPolyContainsSeg(P, s) {
			return false
		}
	}
	return true
}

func oPolyMeetsLine(P oPoly, l oLine) bool {
	if oPolyEmpty(P) || len(l) < 2 {
		return false
	}
	for _, s := range oLineSegs(l) {
		if oPolyMeetsSeg(P, s) {
			return true
		}
	}
	return false
}

// ---------------------------------------------------------------- line vs line

// oLineContainsLine: other is non-empty and every point of every segment of other lies on line.
func oLineContainsLine(line, other oLine) bool {
	if len(line) < 2 || len(other) < 2 {
		return false
	}
	return oSegsCoverSegs(oLineSegs(line), oLineSegs(other))
}

// oSegsCoverSegs: every point of every segment of other lies on some segment of line (the
// segment lists of two non-empty lines).
func oSegsCoverSegs(line, other []oSeg) bool {
	for _, s := range other {
		for _, p := range oSamples(s, line) {
			on := false
			for _, e := range line {
				if oOnSeg(e.A, e.B, p) {
					on = true
					break
				}
			}
			if !on {
				return false
			}
		}
	}
	return true
}

func oLineMeetsLine(a, b oLine) bool {
	if len(a) < 2 || len(b) < 2 {
		return false
	}
	return oSegsMeetSegs(oLineSegs(a), oLineSegs(b))
}

// oSegsMeetSegs: some segment of a meets some segment of b.
func oSegsMeetSegs(a, b []oSeg) bool {
	for _, s := range a {
		for _, e := range b {
			if oSegMeet(s, e) {
				return true
			}
		}
	}
	return false
}

// ---------------------------------------------------------------- polygon vs polygon

// oRingInteriorPoint returns a point strictly inside the ring (centroid of a vertex triple
// that passes pipOpen).  Every simple polygon has a triangulation by its own vertices, and
// the centroid of a triangle of it is strictly inside, so ok is true for every simple ring.
func oRingInteriorPoint(r oRing) (oPt, bool) {
	third := oFrac(1, 3)
	n := len(r)
	for i := 0; i < n; i++ {
		for j := i + 1; j < n; j++ {
			for k := j + 1; k < n; k++ {
				c := oPt{
					r[i].X.add(r[j].X).add(r[k].X).mul(third),
					r[i].Y.add(r[j].Y).add(r[k].Y).mul(third),
				}
				if oPipOpen(r, c) {
					return c, true
				}
			}
		}
	}
	return oPt{}, false
}

// oPolyContainsPoly: B is non-empty and every point of B's region is in A's region.
// Argument (valid polygons: simple rings, holes inside their exterior, holes not overlapping):
//  1. every boundary segment of B (exterior and holes) must be inside A (critical-parameter
//     method against all edges of A);
//  2. given 1, the open interior of a hole H of A does not meet B's boundary, it is connected,
//     so it lies entirely inside or entirely outside B's region: one interior witness point of
//     H decides; a witness inside B's region is a point of B that is not in A;
//  3. given 1, the region enclosed by B's exterior lies inside A's exterior region (Jordan),
//     so points of B can leave A only through holes of A, which 2 has excluded.
func oPolyContainsPoly(A, B oPoly) bool {
	if oPolyEmpty(A) || oPolyEmpty(B) {
		return false
	}
	for _, s := range oPolyEdges(B) {
		if !oPolyContainsSeg(A, s) {
			return false
		}
	}
	for _, h := range A.Holes {
		if w, ok := oRingInteriorPoint(h); ok && oPolyHas(B, w) {
			return false
		}
	}
	return true
}

// oPolyMeetsPoly: the regions share a point.  For connected regions with non-empty boundary:
// they share a point iff some boundary segment of one meets the region of the other (if no
// boundary segment of B meets A then A lies in one component of the complement of B's
// boundary; if that component belongs to B then A's boundary is in B).
func oPolyMeetsPoly(A, B oPoly) bool {
	if oPolyEmpty(A) || oPolyEmpty(B) {
		return false
	}
	for _, s := range oPolyEdges(B) {
		if oPolyMeetsSeg(A, s) {
			return true
		}
	}
	for _, s := range oPolyEdges(A) {
		if oPolyMeetsSeg(B, s) {
			return true
		}
	}
	return false
}

// ---------------------------------------------------------------- validity of generated shapes

// oRingVertices strips a repeated closing vertex.
func oRingVertices(r oRing) []oPt {
	if len(r) >= 2 && r[len(r)-1].eq(r[0]) {
		return r[:len(r)-1]
	}
	return r
}

// oRingSimple: at least 3 vertices, non-adjacent edges do not meet, adjacent edges meet only
// at their shared vertex (this also excludes repeated vertices and collinear fold-backs).
func oRingSimple(r oRing) bool {
	v := oRingVertices(r)
	n := len(v)
	if n < 3 {
		return false
	}
	edge := func(i int) oSeg { return oSeg{v[i%n], v[(i+1)%n]} }
	for i := 0; i < n; i++ {
		if v[i].eq(v[(i+1)%n]) {
			return false
		}
		for j := i + 1; j < n; j++ {
			var u, w, x oPt // adjacent edges u-w and w-x
			switch {
			case j == i+1:
				u, w, x = v[i], v[j], v[(j+1)%n]
			case i == 0 && j == n-1:
				u, w, x = v[n-1], v[0], v[1]
			default:
				if oSegMeet(edge(i), edge(j)) {
					return false
				}
				continue
			}
			if oOnSeg(u, w, x) || oOnSeg(w, x, u) {
				return false
			}
		}
	}
	return true
}

// oRingStrictlyInside: every point of the simple ring h is strictly inside the simple ring ext.
func oRingStrictlyInside(h, ext oRing) bool {
	for _, p := range oRingVertices(h) {
		if !oPipOpen(ext, p) {
			return false
		}
	}
	for _, s := range oRingSegs(h) {
		for _, e := range oRingSegs(ext) {
			if oSegMeet(s, e) {
				return false
			}
		}
	}
	return true
}

// oRingsDisjoint: the closed regions of two simple rings share no point.
func oRingsDisjoint(a, b oRing) bool {
	for _, s := range oRingSegs(a) {
		for _, e := range oRingSegs(b) {
			if oSegMeet(s, e) {
				return false
			}
		}
	}
	return !oPipClosed(b, oRingVertices(a)[0]) && !oPipClosed(a, oRingVertices(b)[0])
}

// oPolyValid: simple exterior, simple holes strictly inside it, holes pairwise disjoint.
func oPolyValid(P oPoly) bool {
	if !oRingSimple(P.Ext) {
		return false
	}
	for i, h := range P.Holes {
		if !oRingSimple(h) || !oRingStrictlyInside(h, P.Ext) {
			return false
		}
		for j := 0; j < i; j++ {
			if !oRingsDisjoint(h, P.Holes[j]) {
				return false
			}
		}
	}
	return true
}
