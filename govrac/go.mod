module govrac

go 1.23
