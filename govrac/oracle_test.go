package main

// Self-validation of the oracle (run by `go test` in this module and by `govrac selftest`):
//   TestONumAgainstBigRat        number type vs math/big.Rat
//   TestOracleHandCases          hand-computed cases (ring/segment, segment/segment, line/line,
//                                polygon with hole, polygon/polygon, validity predicates)
//   TestOracleDenseSampling      critical-parameter answers vs dense exact sampling of t
//   TestOracleInvariance         8 lattice symmetries, translation, scaling, re-encodings, operand swap

import (
	"fmt"
	"math/big"
	"math/rand"
	"testing"
)

func tRing(c ...float64) oRing {
	var r oRing
	for i := 0; i+1 < len(c); i += 2 {
		r = append(r, oP(c[i], c[i+1]))
	}
	return r
}
func tLine(c ...float64) oLine { return oLine(tRing(c...)) }
func tSeg(x1, y1, x2, y2 float64) oSeg {
	return oSeg{oP(x1, y1), oP(x2, y2)}
}
func tRect(x1, y1, x2, y2 float64) oRing {
	return oRectRing(oFromFloat(x1), oFromFloat(y1), oFromFloat(x2), oFromFloat(y2))
}

var (
	tSQ  = tRing(0, 0, 4, 0, 4, 4, 0, 4)
	tSQc = tRing(0, 0, 4, 0, 4, 4, 0, 4, 0, 0)
	tU   = tRing(0, 0, 6, 0, 6, 4, 4, 4, 4, 2, 2, 2, 2, 4, 0, 4)
	tN   = tRing(0, 0, 4, 0, 4, 4, 2, 2, 0, 4) // notched square, reflex vertex (2,2)
	tTR  = tRing(0, 0, 4, 0, 0, 4)
	tPH  = oPoly{Ext: tRing(0, 0, 8, 0, 8, 8, 0, 8), Holes: []oRing{tRing(2, 2, 6, 2, 6, 6, 2, 6)}}
)

func TestONumAgainstBigRat(t *testing.T) {
	t.Parallel()
	rng := rand.New(rand.NewSource(1))
	pick := func() (oNum, *big.Rat) {
		var n, d int64
		switch rng.Intn(4) {
		case 0:
			n, d = int64(rng.Intn(41)-20), int64(rng.Intn(8)+1)
		case 1:
			n, d = rng.Int63n(1<<32)-(1<<31), rng.Int63n(1<<31)+1
		case 2:
			n, d = rng.Int63()-(1<<62), rng.Int63n(1<<62)+1
		default:
			n, d = int64(rng.Intn(9)-4)*(1<<30), int64(1)<<uint(rng.Intn(40))
		}
		return oFrac(n, d), new(big.Rat).SetFrac(big.NewInt(n), big.NewInt(d))
	}
	for i := 0; i < 200000; i++ {
		a, ra := pick()
		b, rb := pick()
		c, rc := pick()
		// chains so that unreduced intermediate values are exercised
		got := a.mul(b).add(c).sub(a.mul(c))
		want := new(big.Rat).Sub(new(big.Rat).Add(new(big.Rat).Mul(ra, rb), rc), new(big.Rat).Mul(ra, rc))
		if got.rat().Cmp(want) != 0 {
			t.Fatalf("a*b+c-a*c: a=%v b=%v c=%v got %v want %v", ra, rb, rc, got, want)
		}
		if a.cmp(b) != ra.Cmp(rb) {
			t.Fatalf("cmp %v %v", ra, rb)
		}
		if a.sign() != ra.Sign() || a.neg().rat().Cmp(new(big.Rat).Neg(ra)) != 0 {
			t.Fatalf("sign/neg %v", ra)
		}
		if rb.Sign() != 0 {
			if a.quo(b).rat().Cmp(new(big.Rat).Quo(ra, rb)) != 0 {
				t.Fatalf("quo %v %v", ra, rb)
			}
		}
		if a.half().add(a.half()).cmp(a) != 0 {
			t.Fatalf("half %v", ra)
		}
	}
	for _, f := range []float64{0, 1, -1, 0.5, -2.5, 0.25, 3.75, 1e300, -1e300, 0.1, 1 << 40, 1e-300} {
		want := new(big.Rat).SetFloat64(f)
		if oFromFloat(f).rat().Cmp(want) != 0 {
			t.Fatalf("oFromFloat(%v)", f)
		}
	}
}

type tRS struct {
	name string
	ring oRing
	seg  oSeg
	want [4]bool // inClosed, inOpen, meetsClosed, meetsOpen
}

const T, F = true, false

func TestOracleHandCases(t *testing.T) {
	t.Parallel()
	n := 0
	// ---- ring vs segment (hand-computed) ----
	rs := []tRS{
		{"sq inside", tSQ, tSeg(1, 1, 3, 3), [4]bool{T, T, T, T}},
		{"sq diagonal corner to corner", tSQ, tSeg(0, 0, 4, 4), [4]bool{T, F, T, T}},
		{"sq along an edge", tSQ, tSeg(0, 0, 4, 0), [4]bool{T, F, T, F}},
		{"sq collinear with edge, longer", tSQ, tSeg(-1, 0, 5, 0), [4]bool{F, F, T, F}},
		{"sq disjoint", tSQ, tSeg(5, 5, 6, 6), [4]bool{F, F, F, F}},
		{"sq touches corner from outside", tSQ, tSeg(4, 4, 5, 5), [4]bool{F, F, T, F}},
		{"sq crossing through", tSQ, tSeg(-1, 2, 5, 2), [4]bool{F, F, T, T}},
		{"sq T-junction from outside", tSQ, tSeg(2, 4, 2, 6), [4]bool{F, F, T, F}},
		{"sq point inside", tSQ, tSeg(2, 2, 2, 2), [4]bool{T, T, T, T}},
		{"sq point on edge", tSQ, tSeg(4, 2, 4, 2), [4]bool{T, F, T, F}},
		{"sq point outside", tSQ, tSeg(5, 2, 5, 2), [4]bool{F, F, F, F}},
		{"sq chord through two corners, longer", tSQ, tSeg(-1, 5, 5, -1), [4]bool{F, F, T, T}},
		{"sq line touching only a corner mid-segment", tSQ, tSeg(-2, 2, 2, -2), [4]bool{F, F, T, F}},
		{"sq closed encoding, diagonal", tSQc, tSeg(0, 0, 4, 4), [4]bool{T, F, T, T}},
		{"sq closed encoding, inside", tSQc, tSeg(1, 1, 3, 2), [4]bool{T, T, T, T}},
		{"sq edge-to-edge chord", tSQ, tSeg(0, 1, 4, 3), [4]bool{T, F, T, T}},
		{"sq from inside to outside", tSQ, tSeg(2, 2, 6, 2), [4]bool{F, F, T, T}},
		{"sq inside to boundary", tSQ, tSeg(2, 2, 4, 2), [4]bool{T, F, T, T}},
		{"U across the gap along the top (F5)", tU, tSeg(2, 4, 5, 4), [4]bool{F, F, T, F}},
		{"U through the notch", tU, tSeg(1, 3, 5, 3), [4]bool{F, F, T, T}},
		{"U below the notch", tU, tSeg(1, 1, 5, 1), [4]bool{T, T, T, T}},
		{"U along the notch bottom, longer", tU, tSeg(1, 2, 5, 2), [4]bool{T, F, T, T}},
		{"U exactly the notch bottom edge", tU, tSeg(2, 2, 4, 2), [4]bool{T, F, T, F}},
		{"U wall to wall across the notch", tU, tSeg(2, 3, 4, 3), [4]bool{F, F, T, F}},
		{"U inside the gap", tU, tSeg(3, 3, 3, 5), [4]bool{F, F, F, F}},
		{"U from the notch bottom upwards", tU, tSeg(3, 2, 3, 5), [4]bool{F, F, T, F}},
		{"U whole top line", tU, tSeg(0, 4, 6, 4), [4]bool{F, F, T, F}},
		{"U vertical through the left arm", tU, tSeg(1, 4, 1, 0), [4]bool{T, F, T, T}},
		{"U notch corner to notch corner diagonal", tU, tSeg(2, 2, 4, 4), [4]bool{F, F, T, F}},
		{"U reflex corner to far corner through the body", tU, tSeg(2, 2, 6, 0), [4]bool{T, F, T, T}},
		{"U arm tip to arm tip below", tU, tSeg(1, 3, 5, 1), [4]bool{F, F, T, T}},
		{"N spike to spike level", tN, tSeg(1, 3, 3, 3), [4]bool{F, F, T, F}},
		{"N below the notch", tN, tSeg(1, 1, 3, 1), [4]bool{T, T, T, T}},
		{"N through the reflex vertex, edge to edge", tN, tSeg(0, 2, 4, 2), [4]bool{T, F, T, T}},
		{"N touching the reflex vertex from inside", tN, tSeg(1, 2, 3, 2), [4]bool{T, F, T, T}},
		{"N from the reflex vertex upwards", tN, tSeg(2, 2, 2, 5), [4]bool{F, F, T, F}},
		{"N from the reflex vertex down to the bottom", tN, tSeg(2, 2, 2, 0), [4]bool{T, F, T, T}},
		{"N across the top between the spikes", tN, tSeg(0, 4, 4, 4), [4]bool{F, F, T, F}},
		{"N along a notch edge", tN, tSeg(2, 2, 4, 4), [4]bool{T, F, T, F}},
		{"N along a notch edge, half", tN, tSeg(3, 3, 4, 4), [4]bool{T, F, T, F}},
		{"N along a notch edge, extended into the body", tN, tSeg(1, 1, 3, 3), [4]bool{T, F, T, T}},
		{"tri hypotenuse point outwards", tTR, tSeg(2, 2, 3, 3), [4]bool{F, F, T, F}},
		{"tri vertex to hypotenuse midpoint", tTR, tSeg(0, 0, 2, 2), [4]bool{T, F, T, T}},
		{"tri half-integer inside", tTR, tSeg(0.5, 0.5, 1.5, 1.5), [4]bool{T, T, T, T}},
		{"empty ring (2 points)", tRing(0, 0, 4, 4), tSeg(1, 1, 2, 2), [4]bool{F, F, F, F}},
	}
	for _, c := range rs {
		a, b, cc, d := oRingSegAnswers(c.ring, c.seg)
		if got := [4]bool{a, b, cc, d}; got != c.want {
			t.Errorf("ring/seg %q: got %v want %v", c.name, got, c.want)
		}
		n++
	}
	// ---- segment vs segment ----
	ss := []struct {
		name string
		a, b oSeg
		want bool
	}{
		{"proper crossing", tSeg(0, 0, 2, 2), tSeg(0, 2, 2, 0), T},
		{"collinear overlap", tSeg(0, 0, 2, 0), tSeg(1, 0, 3, 0), T},
		{"collinear disjoint", tSeg(0, 0, 1, 0), tSeg(2, 0, 3, 0), F},
		{"nested collinear (F1 shape)", tSeg(-4, -4, -6, -5), tSeg(0, -2, -8, -6), T},
		{"nested collinear horizontal", tSeg(1, 0, 2, 0), tSeg(0, 0, 4, 0), T},
		{"shared endpoint", tSeg(0, 0, 2, 0), tSeg(2, 0, 2, 2), T},
		{"T-junction", tSeg(0, 0, 2, 0), tSeg(1, 0, 1, 2), T},
		{"short of touching", tSeg(0, 0, 2, 0), tSeg(1, 1, 1, 2), F},
		{"point on segment", tSeg(1, 0, 1, 0), tSeg(0, 0, 2, 0), T},
		{"point off segment", tSeg(1, 1, 1, 1), tSeg(0, 0, 2, 0), F},
		{"point on the line but beyond", tSeg(3, 0, 3, 0), tSeg(0, 0, 2, 0), F},
		{"same points", tSeg(1, 1, 1, 1), tSeg(1, 1, 1, 1), T},
		{"different points", tSeg(1, 1, 1, 1), tSeg(1, 2, 1, 2), F},
		{"parallel", tSeg(0, 0, 2, 0), tSeg(0, 1, 2, 1), F},
		{"collinear diagonal disjoint", tSeg(0, 0, 2, 2), tSeg(3, 3, 4, 4), F},
		{"collinear diagonal touching", tSeg(0, 0, 2, 2), tSeg(2, 2, 3, 3), T},
		{"stops short of the diagonal", tSeg(0, 0, 2, 2), tSeg(2, 0, 1.5, 0.5), F},
		{"ends on the diagonal", tSeg(0, 0, 2, 2), tSeg(2, 0, 1, 1), T},
		{"lines cross outside the segments", tSeg(0, 0, 1, 1), tSeg(3, 0, 2, 1.5), F},
	}
	for _, c := range ss {
		if got := oSegMeet(c.a, c.b); got != c.want {
			t.Errorf("seg/seg %q: got %v", c.name, got)
		}
		if got := oSegMeet(c.b, c.a); got != c.want {
			t.Errorf("seg/seg swapped %q: got %v", c.name, got)
		}
		n++
	}
	// ---- meet parameters ----
	mp := []struct {
		s, e oSeg
		want string
	}{
		{tSeg(0, 0, 4, 0), tSeg(1, 0, 2, 0), "[1/4 1/2]"},
		{tSeg(0, 0, 4, 0), tSeg(2, -1, 2, 1), "[1/2]"},
		{tSeg(0, 0, 4, 0), tSeg(-1, 0, 1, 0), "[0 1/4]"},
		{tSeg(0, 0, 4, 0), tSeg(4, 0, 5, 0), "[1 1]"},
		{tSeg(0, 0, 4, 0), tSeg(5, 0, 6, 0), "[]"},
		{tSeg(0, 0, 4, 0), tSeg(3, 0, 3, 0), "[3/4 3/4]"},
		{tSeg(0, 0, 4, 0), tSeg(3, 1, 3, 1), "[]"},
		{tSeg(0, 0, 3, 3), tSeg(0, 2, 2, 0), "[1/3]"},
		{tSeg(0, 0, 3, 3), tSeg(0, 1, 1, 2), "[]"},
		{tSeg(2, 2, 2, 2), tSeg(0, 0, 4, 4), "[0]"},
	}
	for _, c := range mp {
		if got := fmt.Sprint(oMeetParams(c.s, c.e)); got != c.want {
			t.Errorf("oMeetParams(%v,%v) = %v want %v", c.s, c.e, got, c.want)
		}
		n++
	}
	// ---- line vs line ----
	ll := []struct {
		name            string
		line, other     oLine
		contains, meets bool
	}{
		{"F4 shape: leaves the line", tLine(0, 0, 4, 0), tLine(1, 0, 2, 0, 2, 9), F, T},
		{"F3 shape: leaves at an interior vertex", tLine(0, 0, 1, 0, 2, 0), tLine(1.5, 0, 1, 0, 1, 5), F, T},
		{"follows around the corner", tLine(0, 0, 2, 0, 2, 2), tLine(1, 0, 2, 0, 2, 1), T, T},
		{"one segment spanning a vertex of line", tLine(0, 0, 2, 0, 4, 0), tLine(1, 0, 3, 0), T, T},
		{"reversed sub-segment", tLine(0, 0, 4, 0), tLine(3, 0, 1, 0), T, T},
		{"sticks out", tLine(0, 0, 2, 0), tLine(1, 0, 3, 0), F, T},
		{"zero-length other on line", tLine(0, 0, 2, 0), tLine(1, 0, 1, 0), T, T},
		{"zero-length other off line", tLine(0, 0, 2, 0), tLine(1, 1, 1, 1), F, F},
		{"both zero-length equal", tLine(1, 1, 1, 1), tLine(1, 1, 1, 1), T, T},
		{"back and forth within", tLine(0, 0, 4, 0), tLine(1, 0, 3, 0, 2, 0), T, T},
		{"second segment on a different part of line", tLine(0, 0, 2, 0, 2, 2, 0, 2), tLine(0, 0, 1, 0, 1, 2), F, T},
		{"jump back to an earlier segment", tLine(0, 0, 2, 0, 2, 2, 0, 2, 0, 0), tLine(0, 1, 0, 0, 1, 0), T, T},
		{"disjoint", tLine(0, 0, 1, 0), tLine(2, 0, 3, 0), F, F},
		{"empty other", tLine(0, 0, 1, 0), tLine(0, 0), F, F},
		{"identical", tLine(0, 0, 2, 1, 3, 3), tLine(0, 0, 2, 1, 3, 3), T, T},
	}
	for _, c := range ll {
		if got := oLineContainsLine(c.line, c.other); got != c.contains {
			t.Errorf("line/line contains %q: got %v", c.name, got)
		}
		if got := oLineMeetsLine(c.line, c.other); got != c.meets {
			t.Errorf("line/line meets %q: got %v", c.name, got)
		}
		if got := oLineMeetsLine(c.other, c.line); got != c.meets {
			t.Errorf("line/line meets swapped %q: got %v", c.name, got)
		}
		n++
	}
	// ---- polygon with hole: points and segments ----
	pp := []struct {
		x, y float64
		want bool
	}{{1, 1, T}, {4, 4, F}, {2, 4, T}, {2, 2, T}, {9, 9, F}, {8, 4, T}, {6, 6, T}, {5.5, 5.5, F}, {0, 0, T}, {7, 4, T}}
	for _, c := range pp {
		if got := oPolyHas(tPH, oP(c.x, c.y)); got != c.want {
			t.Errorf("polyHas(%v,%v) = %v", c.x, c.y, got)
		}
		n++
	}
	ps := []struct {
		name            string
		seg             oSeg
		contains, meets bool
	}{
		{"beside the hole", tSeg(1, 1, 7, 1), T, T},
		{"across the hole", tSeg(1, 4, 7, 4), F, T},
		{"along a hole edge", tSeg(2, 2, 6, 2), T, T},
		{"along the hole side line, longer", tSeg(2, 1, 2, 7), T, T},
		{"into the hole through its corner", tSeg(1, 1, 3, 3), F, T},
		{"hole diagonal", tSeg(2, 2, 6, 6), F, T},
		{"inside the hole", tSeg(3, 3, 5, 5), F, F},
		{"hole interior to hole boundary", tSeg(3, 3, 2, 3), F, T},
		{"hole interior through the boundary", tSeg(4, 4, 4, 7), F, T},
		{"touches a hole corner from the polygon side", tSeg(1, 3, 3, 1), T, T},
		{"outside the exterior", tSeg(9, 0, 9, 8), F, F},
		{"exterior edge", tSeg(0, 0, 8, 0), T, T},
	}
	for _, c := range ps {
		if got := oPolyContainsSeg(tPH, c.seg); got != c.contains {
			t.Errorf("poly/seg contains %q: got %v", c.name, got)
		}
		if got := oPolyMeetsSeg(tPH, c.seg); got != c.meets {
			t.Errorf("poly/seg meets %q: got %v", c.name, got)
		}
		n++
	}
	// ---- polygon vs polygon ----
	sq := func(a, b, c, d float64) oRing { return tRing(a, b, c, b, c, d, a, d) }
	pq := []struct {
		name            string
		B               oPoly
		contains, meets bool
	}{
		{"small square beside the hole", oPoly{Ext: sq(0.5, 0.5, 1.5, 1.5)}, T, T},
		{"surrounds the hole, no hole of its own", oPoly{Ext: sq(1, 1, 7, 7)}, F, T},
		{"surrounds the hole, own hole equal", oPoly{Ext: sq(1, 1, 7, 7), Holes: []oRing{sq(2, 2, 6, 6)}}, T, T},
		{"surrounds the hole, own hole bigger", oPoly{Ext: sq(1, 1, 7, 7), Holes: []oRing{sq(1.5, 1.5, 6.5, 6.5)}}, T, T},
		{"surrounds the hole, own hole smaller", oPoly{Ext: sq(1, 1, 7, 7), Holes: []oRing{sq(3, 3, 5, 5)}}, F, T},
		{"itself", tPH, T, T},
		{"inside the hole", oPoly{Ext: sq(3, 3, 5, 5)}, F, F},
		{"inside the hole touching its boundary", oPoly{Ext: sq(3, 3, 6, 5)}, F, T},
		{"the exterior without the hole", oPoly{Ext: sq(0, 0, 8, 8)}, F, T},
		{"far away", oPoly{Ext: sq(10, 10, 12, 12)}, F, F},
		{"contains A entirely", oPoly{Ext: sq(-1, -1, 9, 9)}, F, T},
		{"A inside B's hole", oPoly{Ext: sq(-2, -2, 10, 10), Holes: []oRing{sq(-1, -1, 9, 9)}}, F, F},
		{"touching A's corner", oPoly{Ext: sq(8, 8, 9, 9)}, F, T},
		{"overlapping A's edge", oPoly{Ext: sq(7, 1, 9, 2)}, F, T},
		{"degenerate rect on the hole edge", oPoly{Ext: tRect(2, 3, 2, 5)}, T, T},
		{"degenerate rect across the hole", oPoly{Ext: tRect(1, 4, 7, 4)}, F, T},
		{"point rect in the hole", oPoly{Ext: tRect(4, 4, 4, 4)}, F, F},
		{"point rect on the hole corner", oPoly{Ext: tRect(2, 2, 2, 2)}, T, T},
	}
	for _, c := range pq {
		if got := oPolyContainsPoly(tPH, c.B); got != c.contains {
			t.Errorf("poly/poly contains %q: got %v", c.name, got)
		}
		if got := oPolyMeetsPoly(tPH, c.B); got != c.meets {
			t.Errorf("poly/poly meets %q: got %v", c.name, got)
		}
		if got := oPolyMeetsPoly(c.B, tPH); got != c.meets {
			t.Errorf("poly/poly meets swapped %q: got %v", c.name, got)
		}
		n++
	}
	// U-shaped A against rectangles in and across the notch
	uP := oPoly{Ext: tU}
	for _, c := range []struct {
		B               oRing
		contains, meets bool
	}{
		{tRect(0, 0, 6, 2), T, T}, {tRect(1, 1, 5, 3), F, T}, {tRect(2.5, 2.5, 3.5, 3.5), F, F},
		{tRect(2, 2, 4, 4), F, T}, {tRect(0, 0, 2, 4), T, T}, {tRect(1, 3, 5, 3), F, T}, {tRect(0, 4, 6, 4), F, T},
	} {
		if got := oPolyContainsPoly(uP, oPoly{Ext: c.B}); got != c.contains {
			t.Errorf("U contains rect %v: got %v", c.B, got)
		}
		if got := oPolyMeetsPoly(uP, oPoly{Ext: c.B}); got != c.meets {
			t.Errorf("U meets rect %v: got %v", c.B, got)
		}
		n++
	}
	// ---- validity predicates ----
	vs := []struct {
		name string
		r    oRing
		want bool
	}{
		{"square", tSQ, T}, {"square closed", tSQc, T}, {"U", tU, T}, {"N", tN, T},
		{"bowtie", tRing(0, 0, 2, 2, 2, 0, 0, 2), F},
		{"collinear triple", tRing(0, 0, 1, 1, 2, 2), F},
		{"fold-back", tRing(0, 0, 2, 0, 1, 0, 1, 1), F},
		{"straight-angle vertex", tRing(0, 0, 2, 0, 4, 0, 4, 4, 0, 4), T},
		{"repeated vertex", tRing(0, 0, 2, 0, 2, 0, 2, 2), F},
		{"vertex on a non-adjacent edge", tRing(0, 0, 4, 0, 4, 4, 2, 0), F},
		{"two points", tRing(0, 0, 1, 1), F},
		{"spike (zero-width return)", tRing(0, 0, 4, 0, 4, 4, 2, 4, 2, 6, 2, 4, 0, 4), F},
	}
	for _, c := range vs {
		if got := oRingSimple(c.r); got != c.want {
			t.Errorf("oRingSimple %q: got %v", c.name, got)
		}
		n++
	}
	if !oPolyValid(tPH) {
		t.Errorf("tPH must be valid")
	}
	if oPolyValid(oPoly{Ext: tPH.Ext, Holes: []oRing{sq(0, 2, 3, 4)}}) {
		t.Errorf("hole touching the exterior must be invalid")
	}
	if oPolyValid(oPoly{Ext: tPH.Ext, Holes: []oRing{sq(9, 9, 10, 10)}}) {
		t.Errorf("hole outside must be invalid")
	}
	if oPolyValid(oPoly{Ext: tPH.Ext, Holes: []oRing{sq(1, 1, 3, 3), sq(3, 3, 5, 5)}}) {
		t.Errorf("touching holes must be invalid")
	}
	if !oPolyValid(oPoly{Ext: tPH.Ext, Holes: []oRing{sq(1, 1, 3, 3), sq(4, 4, 5, 5)}}) {
		t.Errorf("two disjoint holes must be valid")
	}
	for _, r := range []oRing{tSQ, tU, tN, tTR, tSQc} {
		if w, ok := oRingInteriorPoint(r); !ok || !oPipOpen(r, w) {
			t.Errorf("no interior witness for %v", r)
		}
		n++
	}
	t.Logf("%d hand-computed oracle cases", n)
	if n < 40 {
		t.Fatalf("fewer than 40 hand cases")
	}
}

// ---- enumerated small domain shared by the sampling and invariance tests ----

func tLatticeRings(size int, maxVerts int) []oRing {
	var pts []oPt
	for x := 0; x < size; x++ {
		for y := 0; y < size; y++ {
			pts = append(pts, oP(float64(x), float64(y)))
		}
	}
	var out []oRing
	var rec func(cur oRing)
	rec = func(cur oRing) {
		if len(cur) >= 3 && oRingSimple(cur) {
			out = append(out, append(oRing(nil), cur...))
		}
		if len(cur) == maxVerts {
			return
		}
	next:
		for _, p := range pts {
			for _, q := range cur {
				if p.eq(q) {
					continue next
				}
			}
			rec(append(cur, p))
		}
	}
	rec(nil)
	return out
}

func tHalfSegs(lo, hi float64) []oSeg {
	var pts []oPt
	for x := lo; x <= hi; x += 0.5 {
		for y := lo; y <= hi; y += 0.5 {
			pts = append(pts, oP(x, y))
		}
	}
	var segs []oSeg
	for _, a := range pts {
		for _, b := range pts {
			segs = append(segs, oSeg{a, b})
		}
	}
	return segs
}

// TestOracleDenseSampling compares the critical-parameter answers with exact membership at
// t = k/240, k = 0..240 (an independent, quantifier-by-sampling reading of the same contract).
// Sound directions are checked for all four answers; the converse is checked where the
// violating set is open (not contained in the closed region / meets the open interior).
func TestOracleDenseSampling(t *testing.T) {
	t.Parallel()
	rings := tLatticeRings(3, 4)
	rings = append(rings, tU, tN, tSQ, tTR)
	rng := rand.New(rand.NewSource(7))
	cases := 0
	for _, r := range rings {
		segs := oRingSegs(r)
		all := tHalfSegs(-0.5, 2.5)
		if len(r) > 5 {
			all = tHalfSegs(-0.5, 6.5)
		}
		for k := 0; k < 30; k++ {
			s := all[rng.Intn(len(all))]
			inC, inO, mC, mO := oRingSegAnswers(r, s)
			allC, allO, anyC, anyO := true, true, false, false
			for i := 0; i <= 240; i++ {
				on, odd := oClassify(segs, oAt(s, oFrac(int64(i), 240)))
				allC = allC && (on || odd)
				allO = allO && !on && odd
				anyC = anyC || on || odd
				anyO = anyO || (!on && odd)
			}
			if inC != allC || mO != anyO || (inO && !allO) || (!mC && anyC) {
				t.Fatalf("ring %v seg %v: oracle %v %v %v %v, sampling all-closed=%v all-open=%v any-closed=%v any-open=%v",
					r, s, inC, inO, mC, mO, allC, allO, anyC, anyO)
			}
			cases++
		}
	}
	t.Logf("%d ring/segment pairs compared with dense sampling", cases)
}

// ---- invariance ----

type tXf struct {
	name string
	f    func(oPt) oPt
}

func tXforms() []tXf {
	neg := func(a oNum) oNum { return a.neg() }
	two, half := oInt(2), oFrac(1, 2)
	return []tXf{
		{"identity", func(p oPt) oPt { return p }},
		{"x->-x", func(p oPt) oPt { return oPt{neg(p.X), p.Y} }},
		{"y->-y", func(p oPt) oPt { return oPt{p.X, neg(p.Y)} }},
		{"rot180", func(p oPt) oPt { return oPt{neg(p.X), neg(p.Y)} }},
		{"swap", func(p oPt) oPt { return oPt{p.Y, p.X} }},
		{"swap,x->-x", func(p oPt) oPt { return oPt{neg(p.Y), p.X} }},
		{"swap,y->-y", func(p oPt) oPt { return oPt{p.Y, neg(p.X)} }},
		{"swap,rot180", func(p oPt) oPt { return oPt{neg(p.Y), neg(p.X)} }},
		{"translate(+7,-3)", func(p oPt) oPt { return oPt{p.X.add(oInt(7)), p.Y.sub(oInt(3))} }},
		{"scale 2", func(p oPt) oPt { return oPt{p.X.mul(two), p.Y.mul(two)} }},
		{"scale 1/2", func(p oPt) oPt { return oPt{p.X.mul(half), p.Y.mul(half)} }},
	}
}

func tMapRing(r oRing, f func(oPt) oPt) oRing {
	out := make(oRing, len(r))
	for i, p := range r {
		out[i] = f(p)
	}
	return out
}

// tReencodings returns point sequences describing the same ring: every start vertex, both
// directions, with and without the closing vertex.
func tReencodings(r oRing) []oRing {
	v := oRingVertices(r)
	n := len(v)
	var out []oRing
	for s := 0; s < n; s++ {
		for _, dir := range []int{1, -1} {
			var q oRing
			for i := 0; i < n; i++ {
				q = append(q, v[((s+dir*i)%n+n)%n])
			}
			out = append(out, q, append(append(oRing(nil), q...), q[0]))
		}
	}
	return out
}

func TestOracleInvariance(t *testing.T) {
	t.Parallel()
	rings := tLatticeRings(3, 4)
	rings = append(rings, tU, tN)
	rng := rand.New(rand.NewSource(11))
	xf := tXforms()
	cases := 0
	for _, r := range rings {
		all := tHalfSegs(-0.5, 2.5)
		if len(r) > 5 {
			all = tHalfSegs(-0.5, 6.5)
		}
		for k := 0; k < 40; k++ {
			s := all[rng.Intn(len(all))]
			a0, b0, c0, d0 := oRingSegAnswers(r, s)
			base := [4]bool{a0, b0, c0, d0}
			for _, x := range xf {
				a, b, c, d := oRingSegAnswers(tMapRing(r, x.f), oSeg{x.f(s.A), x.f(s.B)})
				if got := [4]bool{a, b, c, d}; got != base {
					t.Fatalf("ring %v seg %v under %s: %v vs %v", r, s, x.name, got, base)
				}
				cases++
			}
			for _, q := range tReencodings(r) {
				a, b, c, d := oRingSegAnswers(q, oSeg{s.B, s.A})
				if got := [4]bool{a, b, c, d}; got != base {
					t.Fatalf("ring %v re-encoded %v seg %v reversed: %v vs %v", r, q, s, got, base)
				}
				cases++
			}
		}
	}
	// lines: all lines of 2..3 points on the 3x3 lattice
	var pts []oPt
	for x := 0; x < 3; x++ {
		for y := 0; y < 3; y++ {
			pts = append(pts, oP(float64(x), float64(y)))
		}
	}
	var lines []oLine
	for _, a := range pts {
		for _, b := range pts {
			lines = append(lines, oLine{a, b})
			for _, c := range pts {
				lines = append(lines, oLine{a, b, c})
			}
		}
	}
	rev := func(l oLine) oLine {
		out := make(oLine, len(l))
		for i := range l {
			out[len(l)-1-i] = l[i]
		}
		return out
	}
	for _, a := range lines {
		for k := 0; k < 12; k++ {
			b := lines[rng.Intn(len(lines))]
			c0, m0 := oLineContainsLine(a, b), oLineMeetsLine(a, b)
			if oLineMeetsLine(b, a) != m0 {
				t.Fatalf("line meets not symmetric: %v %v", a, b)
			}
			if oLineContainsLine(rev(a), b) != c0 || oLineContainsLine(a, rev(b)) != c0 || oLineMeetsLine(rev(a), rev(b)) != m0 {
				t.Fatalf("line reversal changes the answer: %v %v", a, b)
			}
			for _, x := range xf {
				ta, tb := oLine(tMapRing(oRing(a), x.f)), oLine(tMapRing(oRing(b), x.f))
				if oLineContainsLine(ta, tb) != c0 || oLineMeetsLine(ta, tb) != m0 {
					t.Fatalf("lines %v %v under %s", a, b, x.name)
				}
				cases++
			}
		}
	}
	// polygons with a hole against polygons with a hole
	sq := func(a, b, c, d float64) oRing { return tRing(a, b, c, b, c, d, a, d) }
	var polys []oPoly
	for _, e := range []oRing{sq(0, 0, 8, 8), tRing(0, 0, 8, 0, 8, 8, 4, 3, 0, 8), sq(1, 1, 7, 7), sq(3, 3, 5, 5), sq(2, 2, 6, 6), sq(2.5, 2.5, 3.5, 3.5), sq(6, 6, 10, 10), tRect(4, 1, 4, 7), tRect(1, 1, 1, 1)} {
		polys = append(polys, oPoly{Ext: e})
		for _, h := range []oRing{sq(2, 1, 6, 2.5), sq(3.5, 3.5, 4.5, 4.5), tRing(2, 1, 3, 1, 2, 2)} {
			p := oPoly{Ext: e, Holes: []oRing{h}}
			if oPolyValid(p) {
				polys = append(polys, p)
			}
		}
	}
	mapPoly := func(p oPoly, f func(oPt) oPt) oPoly {
		q := oPoly{Ext: tMapRing(p.Ext, f)}
		for _, h := range p.Holes {
			q.Holes = append(q.Holes, tMapRing(h, f))
		}
		return q
	}
	for _, A := range polys {
		for _, B := range polys {
			c0, m0 := oPolyContainsPoly(A, B), oPolyMeetsPoly(A, B)
			if oPolyMeetsPoly(B, A) != m0 {
				t.Fatalf("poly meets not symmetric: %v %v", A, B)
			}
			if c0 && !m0 {
				t.Fatalf("contains without meets: %v %v", A, B)
			}
			if c0 && oPolyContainsPoly(B, A) {
				// mutual containment: same region; every vertex of each must be in the other
				for _, p := range B.Ext {
					if !oPolyHas(A, p) {
						t.Fatalf("mutual containment but vertex outside")
					}
				}
			}
			for _, x := range xf {
				if oPolyContainsPoly(mapPoly(A, x.f), mapPoly(B, x.f)) != c0 || oPolyMeetsPoly(mapPoly(A, x.f), mapPoly(B, x.f)) != m0 {
					t.Fatalf("polys %v %v under %s", A, B, x.name)
				}
				cases++
			}
		}
	}
	t.Logf("%d invariance comparisons, %d polygons", cases, len(polys))
}

// TestKnownMatching covers the KNOWN_FINDINGS.txt line format of the bounded checks.
func TestKnownMatching(t *testing.T) {
	m := knownRe.FindStringSubmatch("known: property=C03 bounded=ringseg/ringContainsSegment.edge#lib=true,oracle=false,convex=false,A=vertex,B=*,mid=* F5: text here")
	if m == nil || m[1] != "C03" || m[2] != "ringseg" || m[4] != "F5: text here" {
		t.Fatalf("parse: %q", m)
	}
	k := known{Property: m[1], Suite: m[2], Function: "ringContainsSegment.edge", Pattern: "lib=true,oracle=false,convex=false,A=vertex,B=*,mid=*"}
	if !k.matches("ringseg", "ringContainsSegment.edge", "lib=true,oracle=false,convex=false,A=vertex,B=edge,mid=clear") {
		t.Fatalf("glob must match")
	}
	if k.matches("ringseg", "ringContainsSegment.edge", "lib=false,oracle=true,convex=false,A=vertex,B=in,mid=clear") ||
		k.matches("ringseg", "ringContainsSegment.strict", "lib=true,oracle=false,convex=false,A=vertex,B=edge,mid=clear") ||
		k.matches("polypoly", "ringContainsSegment.edge", "lib=true,oracle=false,convex=false,A=vertex,B=edge,mid=clear") {
		t.Fatalf("glob must not match another decision, function or suite")
	}
	if !(known{Suite: "lineline", Function: "Line.ContainsLine"}).matches("lineline", "Line.ContainsLine", "anything") {
		t.Fatalf("no pattern: every decision")
	}
	if knownRe.MatchString("known: property=C16 obligation=foo witness=bar text") || knownRe.MatchString("fixed: property=C19 33982ac bounded=x/y") {
		t.Fatalf("other line kinds must be ignored")
	}
}
