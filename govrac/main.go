// govrac -- the BOUNDED stand-in of DESIGN.md 2.9: run-time contract checking of the real
// library code over exhaustively enumerated small domains against an exact planar oracle.
// This is not a proof; its results are labelled bounded everywhere.
package main

import (
	"bufio"
	"bytes"
	"embed"
	"encoding/json"
	"flag"
	"fmt"
	"os"
	"os/exec"
	"path"
	"path/filepath"
	"regexp"
	"sort"
	"strconv"
	"strings"
	"time"
)

//go:embed oracle.go harness/*.txt
var embedded embed.FS

var suites = []string{"ringseg", "lineline", "polypoly", "symmetry", "index"}

const oracleNote = "A-ORACLE exact rational critical-parameter oracle, cross-checked by symmetry suite"

func goEnv() []string {
	env := os.Environ()
	return append(env, "GOFLAGS=-mod=mod", "GOPROXY=off", "GOSUMDB=off", "GOTOOLCHAIN=local")
}

func usage() {
	fmt.Fprintln(os.Stderr, `usage:
  govrac run <suite> [--repo /repo] [--verif /verif] [--tier quick|thorough] [--seed N]
  govrac selftest [--repo /repo] [--verif /verif]
suites: `+strings.Join(suites, ", "))
	os.Exit(2)
}

func main() {
	if len(os.Args) < 2 {
		usage()
	}
	switch os.Args[1] {
	case "run":
		if len(os.Args) < 3 {
			usage()
		}
		suite := os.Args[2]
		fs := flag.NewFlagSet("run", flag.ExitOnError)
		repo := fs.String("repo", "/repo", "repository (its current working tree is tested)")
		verif := fs.String("verif", "/verif", "verification directory (KNOWN_FINDINGS.txt, evidence/, replays/)")
		tier := fs.String("tier", "quick", "quick|thorough")
		seed := fs.Int64("seed", 1, "seed of the deterministic sampling")
		keep := fs.Bool("keep", false, "keep the generated test files (prints the directory)")
		fs.Parse(os.Args[3:])
		ok := false
		for _, s := range suites {
			ok = ok || s == suite
		}
		if !ok || (*tier != "quick" && *tier != "thorough") {
			usage()
		}
		os.Exit(runSuite(os.Stdout, suite, *repo, *verif, *tier, *seed, *keep))
	case "selftest":
		fs := flag.NewFlagSet("selftest", flag.ExitOnError)
		repo := fs.String("repo", "/repo", "repository")
		verif := fs.String("verif", "/verif", "verification directory")
		only := fs.String("only", "", "comma-separated subset: oracle,baseline,m1..m7")
		fs.Parse(os.Args[2:])
		os.Exit(selftest(*repo, *verif, *only))
	default:
		usage()
	}
}

// ---------------------------------------------------------------- report records

type example struct {
	Input  json.RawMessage `json:"input"`
	Lib    string          `json:"library"`
	Want   string          `json:"oracle"`
	GoTest string          `json:"go_test"`
	Note   string          `json:"note,omitempty"`
}

type record struct {
	T          string            `json:"t"`
	Function   string            `json:"function"`
	Kind       string            `json:"kind"`
	Props      []string          `json:"property_ids"`
	Domain     string            `json:"domain"`
	Exhaustive bool              `json:"exhaustive"`
	Cases      int64             `json:"cases"`
	Failures   int64             `json:"failures"`
	Hangs      int64             `json:"hangs"`
	Panics     int64             `json:"panics"`
	Confirmed  int64             `json:"hangs_confirmed_2s"`
	Retried    int64             `json:"watchdog_retries_returned"`
	Samples    []json.RawMessage `json:"samples"`
	Decision   string            `json:"decision"`
	Count      int64             `json:"count"`
	Examples   []example         `json:"examples"`
	WallS      float64           `json:"wall_s"`
	Workers    int               `json:"workers"`
}

type known struct {
	Property string
	Suite    string
	Function string
	Pattern  string // glob over the decision; empty = every decision
	Text     string
	Quick    int64 // recorded number of failing inputs of this class on the pinned tree (quick / thorough tier); -1 = not recorded
	Thorough int64
}

var knownCountRe = regexp.MustCompile(`^(quick|thorough)=(\d+)\s+`)

var knownRe = regexp.MustCompile(`^known:\s+property=(\S+)\s+bounded=([A-Za-z0-9_]+)/(\S+)\s*(.*)$`)

func readKnown(verif string) []known {
	f, err := os.Open(filepath.Join(verif, "KNOWN_FINDINGS.txt"))
	if err != nil {
		return nil
	}
	defer f.Close()
	var out []known
	sc := bufio.NewScanner(f)
	sc.Buffer(make([]byte, 1<<20), 1<<20)
	for sc.Scan() {
		m := knownRe.FindStringSubmatch(strings.TrimSpace(sc.Text()))
		if m == nil {
			continue
		}
		k := known{Property: m[1], Suite: m[2], Function: m[3], Text: m[4], Quick: -1, Thorough: -1}
		if i := strings.Index(k.Function, "#"); i >= 0 {
			k.Function, k.Pattern = k.Function[:i], k.Function[i+1:]
		}
		for {
			cm := knownCountRe.FindStringSubmatch(k.Text)
			if cm == nil {
				break
			}
			n, _ := strconv.ParseInt(cm[2], 10, 64)
			if cm[1] == "quick" {
				k.Quick = n
			} else {
				k.Thorough = n
			}
			k.Text = k.Text[len(cm[0]):]
		}
		out = append(out, k)
	}
	return out
}

func (k known) matches(suite, function, decision string) bool {
	if k.Suite != suite || k.Function != function {
		return false
	}
	if k.Pattern == "" {
		return true
	}
	ok, err := path.Match(k.Pattern, decision)
	return err == nil && ok
}

// ---------------------------------------------------------------- run

func repoCommit(repo string) (string, bool) {
	out, err := exec.Command("git", "-C", repo, "rev-parse", "HEAD").Output()
	if err != nil {
		return "unknown", false
	}
	st, _ := exec.Command("git", "-C", repo, "status", "--porcelain").Output()
	return strings.TrimSpace(string(out)), len(bytes.TrimSpace(st)) > 0
}

// writeOverlay materialises the generated test files in dir and returns the overlay file.
func writeOverlay(dir, repo string) (string, error) {
	pkgDir, err := filepath.Abs(filepath.Join(repo, "geometry"))
	if err != nil {
		return "", err
	}
	replace := map[string]string{}
	ora, err := embedded.ReadFile("oracle.go")
	if err != nil {
		return "", err
	}
	// the oracle is copied verbatim; only the package clause changes
	if !bytes.HasPrefix(ora, []byte("package main\n")) {
		return "", fmt.Errorf("oracle.go does not start with its package clause")
	}
	ora = append([]byte("package geometry\n"), ora[len("package main\n"):]...)
	files := map[string][]byte{"zz_govrac_oracle_test.go": ora}
	ents, err := embedded.ReadDir("harness")
	if err != nil {
		return "", err
	}
	for _, e := range ents {
		b, err := embedded.ReadFile("harness/" + e.Name())
		if err != nil {
			return "", err
		}
		files["zz_govrac_"+strings.TrimSuffix(e.Name(), ".go.txt")+"_test.go"] = b
	}
	for name, b := range files {
		p := filepath.Join(dir, name)
		if err := os.WriteFile(p, b, 0o644); err != nil {
			return "", err
		}
		replace[filepath.Join(pkgDir, name)] = p
	}
	ov, _ := json.Marshal(map[string]interface{}{"Replace": replace})
	ovFile := filepath.Join(dir, "overlay.json")
	return ovFile, os.WriteFile(ovFile, ov, 0o644)
}

type checkEvidence struct {
	Function      string            `json:"function"`
	Kind          string            `json:"kind"`
	PropertyIDs   []string          `json:"property_ids"`
	Domain        string            `json:"domain"`
	Cases         int64             `json:"cases"`
	Exhaustive    bool              `json:"exhaustive"`
	Failures      int64             `json:"failures"`
	KnownFailures int64             `json:"known_failures"`
	Hangs         int64             `json:"hangs"`
	HangsConf     int64             `json:"hangs_confirmed_2s"`
	Retried       int64             `json:"watchdog_retries_returned"`
	Panics        int64             `json:"panics"`
	Samples       []json.RawMessage `json:"samples"`
}

// harnessResult is the parsed machine-readable output of one run of the generated test.
type harnessResult struct {
	checks []*record
	fails  map[string][]*record
	done   bool
	other  []string
	runErr error
}

// execHarness generates the test files, injects them with -overlay and runs TestGovrac.
func execHarness(suite, repo, tier string, seed int64, keep bool, extraEnv ...string) (*harnessResult, error) {
	dir, err := os.MkdirTemp("", "govrac-")
	if err != nil {
		return nil, err
	}
	if keep {
		fmt.Println("govrac: generated files kept in", dir)
	} else {
		defer os.RemoveAll(dir)
	}
	ovFile, err := writeOverlay(dir, repo)
	if err != nil {
		return nil, err
	}
	timeout := "15m"
	if tier == "thorough" {
		timeout = "60m"
	}
	cmd := exec.Command("go", "test", "-overlay", ovFile, "-vet=off", "-count=1", "-v", "-timeout", timeout, "-run", "^TestGovrac$", ".")
	cmd.Dir = filepath.Join(repo, "geometry")
	cmd.Env = append(goEnv(), "GOVRAC_SUITE="+suite, "GOVRAC_TIER="+tier, fmt.Sprintf("GOVRAC_SEED=%d", seed))
	cmd.Env = append(cmd.Env, extraEnv...)
	var buf bytes.Buffer
	cmd.Stdout = &buf
	cmd.Stderr = &buf
	res := &harnessResult{fails: map[string][]*record{}}
	res.runErr = cmd.Run()
	sc := bufio.NewScanner(&buf)
	sc.Buffer(make([]byte, 1<<26), 1<<26)
	for sc.Scan() {
		line := sc.Text()
		if i := strings.Index(line, "GOVRAC|"); i >= 0 {
			var r record
			if err := json.Unmarshal([]byte(line[i+7:]), &r); err != nil {
				return nil, fmt.Errorf("bad result line: %v", err)
			}
			switch r.T {
			case "check":
				rr := r
				res.checks = append(res.checks, &rr)
			case "fail":
				rr := r
				res.fails[r.Function] = append(res.fails[r.Function], &rr)
			case "done":
				res.done = true
			}
			continue
		}
		res.other = append(res.other, line)
	}
	return res, nil
}

func runSuite(out *os.File, suite, repo, verif, tier string, seed int64, keep bool) int {
	start := time.Now()
	res, err := execHarness(suite, repo, tier, seed, keep)
	if err != nil {
		fmt.Fprintln(out, "govrac: internal error:", err)
		return 2
	}
	checks, fails, other := res.checks, res.fails, res.other
	if !res.done {
		fmt.Fprintf(out, "govrac: internal error: the generated test did not complete (%v); output of go test:\n", res.runErr)
		if len(other) > 200 {
			other = other[len(other)-200:]
		}
		fmt.Fprintln(out, strings.Join(other, "\n"))
		return 2
	}

	layoutSrc := layoutSource()
	for _, fl := range fails {
		for _, f := range fl {
			for i := range f.Examples {
				f.Examples[i].GoTest = strings.Replace(f.Examples[i].GoTest, "/*GVLAYOUT*/", layoutSrc, 1)
			}
		}
	}
	knowns := readKnown(verif)
	commit, dirty := repoCommit(repo)
	replayDir := filepath.Join(verif, "replays", "bounded", suite)
	os.RemoveAll(replayDir)
	nReplay := 0
	unknownFailures := int64(0)
	var evid []checkEvidence
	fmt.Fprintf(out, "govrac: suite=%s tier=%s seed=%d repo=%s commit=%s dirty=%v  [bounded check, not a proof]\n", suite, tier, seed, repo, commit, dirty)
	for _, c := range checks {
		ce := checkEvidence{Function: c.Function, Kind: c.Kind, PropertyIDs: c.Props, Domain: c.Domain, Cases: c.Cases,
			Exhaustive: c.Exhaustive, Failures: c.Failures, Hangs: c.Hangs, HangsConf: c.Confirmed, Retried: c.Retried, Panics: c.Panics, Samples: c.Samples}
		if ce.Samples == nil {
			ce.Samples = []json.RawMessage{}
		}
		type kagg struct {
			k     known
			count int64
			first *example
		}
		var kaggs []*kagg
		perFn := 0
		fl := fails[c.Function]
		sort.Slice(fl, func(i, j int) bool { return fl[i].Decision < fl[j].Decision })
		for _, f := range fl {
			var hit *known
			for i := range knowns {
				if knowns[i].matches(suite, c.Function, f.Decision) {
					hit = &knowns[i]
					break
				}
			}
			if hit != nil {
				ce.KnownFailures += f.Count
				var a *kagg
				for _, x := range kaggs {
					if x.k == *hit {
						a = x
					}
				}
				if a == nil {
					a = &kagg{k: *hit}
					kaggs = append(kaggs, a)
				}
				a.count += f.Count
				if a.first == nil && len(f.Examples) > 0 {
					a.first = &f.Examples[0]
				}
				continue
			}
			unknownFailures += f.Count
			perFn++
			desc := fmt.Sprintf("%d failing inputs with decision %s", f.Count, f.Decision)
			if len(f.Examples) > 0 {
				desc += ", e.g. " + compact(f.Examples[0].Input) + " library=" + short(f.Examples[0].Lib) + " oracle=" + f.Examples[0].Want
			}
			replay := "(replay cap of 50 per function reached)"
			if perFn <= 50 && len(f.Examples) > 0 {
				nReplay++
				os.MkdirAll(replayDir, 0o755)
				replay = filepath.Join(replayDir, fmt.Sprintf("%d.json", nReplay))
				ex := f.Examples[0]
				rep := map[string]interface{}{"suite": suite, "function": c.Function, "kind": c.Kind, "property_ids": c.Props,
					"decision": f.Decision, "count": f.Count, "input": ex.Input, "library": ex.Lib, "oracle": ex.Want,
					"go_test": ex.GoTest, "go_test_file": testFile(ex.GoTest), "more_examples": f.Examples[1:], "tier": tier, "seed": seed,
					"repo_commit": commit, "repo_dirty": dirty, "level": "bounded",
					"how_to_replay": "save go_test_file as <repo>/geometry/zz_replay_test.go (or inject it with go test -overlay) and run: go test -vet=off -count=1 -run '^TestGovracReplay$' ./geometry"}
				os.WriteFile(replay, marshal(rep), 0o644)
			}
			fmt.Fprintf(out, "BOUNDED-FAILURE suite=%s function=%s replay=%s %s\n", suite, c.Function, replay, desc)
		}
		for _, a := range kaggs {
			// a known class is recorded with its size on the pinned tree: MORE failing inputs in the class than recorded
			// is a new violation hiding in a known class (counts are deterministic: exhaustive domains, or sampled with seed 1)
			want := a.k.Quick
			if tier == "thorough" {
				want = a.k.Thorough
			}
			if want >= 0 && (c.Exhaustive || seed == 1) && a.count > want {
				unknownFailures += a.count - want
				nReplay++
				os.MkdirAll(replayDir, 0o755)
				replay := filepath.Join(replayDir, fmt.Sprintf("%d.json", nReplay))
				rep := map[string]interface{}{"suite": suite, "function": c.Function, "kind": c.Kind, "property_ids": c.Props,
					"decision_class": a.k.Pattern, "count": a.count, "recorded_count": want, "new_failing_inputs": a.count - want,
					"new_failing_input_not_isolated": true, "tier": tier, "seed": seed, "repo_commit": commit, "repo_dirty": dirty, "level": "bounded",
					"note": "the class of a known finding has grown: the additional failing inputs are not isolated from the recorded ones; the first example of the class follows"}
				if a.first != nil {
					rep["example_of_class"] = a.first.Input
					rep["go_test_file"] = testFile(a.first.GoTest)
				}
				os.WriteFile(replay, marshal(rep), 0o644)
				fmt.Fprintf(out, "BOUNDED-FAILURE suite=%s function=%s replay=%s known class %s has %d failing inputs, %d more than the %d recorded for the pinned tree no-failing-input-found\n", suite, c.Function, replay, a.k.Pattern, a.count, a.count-want, want)
			}
			eg := ""
			if a.first != nil {
				eg = compact(a.first.Input) + " library=" + short(a.first.Lib) + " oracle=" + a.first.Want
			}
			name := c.Function
			if a.k.Pattern != "" {
				name += "#" + a.k.Pattern
			}
			fmt.Fprintf(out, "KNOWN-FINDING: property=%s bounded %s/%s: %d failing inputs, e.g. %s %s\n", a.k.Property, suite, name, a.count, eg, a.k.Text)
		}
		fmt.Fprintf(out, "bounded %-42s kind=%-9s cases=%-11d failures=%-9d known=%-9d hangs=%-7d panics=%-5d exhaustive=%v\n",
			suite+"/"+c.Function, c.Kind, c.Cases, c.Failures, ce.KnownFailures, c.Hangs, c.Panics, c.Exhaustive)
		evid = append(evid, ce)
	}
	wall := time.Since(start).Seconds()
	ev := map[string]interface{}{"suite": suite, "tier": tier, "seed": seed, "wall_s": wall, "repo_commit": commit, "dirty": dirty,
		"level": "bounded", "checks": evid, "oracle": oracleNote}
	os.MkdirAll(filepath.Join(verif, "evidence", "bounded"), 0o755)
	if err := os.WriteFile(filepath.Join(verif, "evidence", "bounded", suite+".json"), marshal(ev), 0o644); err != nil {
		fmt.Fprintln(out, "govrac: internal error:", err)
		return 2
	}
	fmt.Fprintf(out, "govrac: suite=%s wall=%.1fs evidence=%s\n", suite, wall, filepath.Join(verif, "evidence", "bounded", suite+".json"))
	if unknownFailures > 0 {
		return 1
	}
	return 0
}

// testFile wraps a test body into a complete file of package geometry.
func testFile(body string) string {
	imports := []string{"\"testing\""}
	if strings.Contains(body, "math.") {
		imports = append([]string{"\"math\""}, imports...)
	}
	if strings.Contains(body, "time.") {
		imports = append(imports, "\"time\"")
	}
	return "package geometry\n\nimport (\n\t" + strings.Join(imports, "\n\t") + "\n)\n\n" + body
}

// marshal renders indented JSON without HTML escaping (the replays contain Go source).
func marshal(v interface{}) []byte {
	var b bytes.Buffer
	enc := json.NewEncoder(&b)
	enc.SetEscapeHTML(false)
	enc.SetIndent("", " ")
	if err := enc.Encode(v); err != nil {
		panic(err)
	}
	return b.Bytes()
}

// layoutSource extracts the corpus generator of the index suite (pasted into its replays).
func layoutSource() string {
	b, _ := embedded.ReadFile("harness/index.go.txt")
	s := string(b)
	i, j := strings.Index(s, "// GVLAYOUT-BEGIN"), strings.Index(s, "// GVLAYOUT-END")
	if i < 0 || j < i {
		panic("govrac: layout generator markers missing in harness/index.go.txt")
	}
	return strings.TrimSpace(s[i+len("// GVLAYOUT-BEGIN"):j]) + "\n"
}

func compact(raw json.RawMessage) string {
	var b bytes.Buffer
	if json.Compact(&b, raw) != nil {
		return string(raw)
	}
	s := b.String()
	if len(s) > 400 {
		s = s[:400] + "..."
	}
	return s
}

func short(s string) string {
	if len(s) > 60 {
		return s[:60] + "..."
	}
	return s
}
