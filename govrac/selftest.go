package main

// govrac selftest:
//   oracle    go test of this module (hand cases, dense sampling, invariance of the oracle, oNum vs big.Rat)
//   baseline  every suite (quick) on the unchanged --repo with <verif>/KNOWN_FINDINGS.txt: exit 0 expected
//   m1..m8    must-fail mutants applied to a scratch copy of --repo: exit 1 expected
// Nothing is written under --repo or --verif: evidence/replays of these runs go to a scratch directory.

import (
	"encoding/json"
	"fmt"
	"os"
	"os/exec"
	"path/filepath"
	"strings"
	"time"
)

type mutant struct {
	id, suite, file, old, new, what string
	optional                        bool
}

var mutants = []mutant{
	{"m1", "ringseg", "geometry/ring.go", "return count >= 2", "return count >= 1",
		"ringIntersectsSegment: count >= 2 -> count >= 1", false},
	{"m2", "ringseg", "geometry/ring.go", "if !seg2.Raycast(seg.A).On {", "if true {",
		"ringContainsSegment case (4): drop the !seg2.Raycast(seg.A).On condition", false},
	{"m3", "polypoly", "geometry/poly.go", "if ringIntersectsLine(polyHole, line, false) {", "if ringIntersectsLine(polyHole, line, true) {",
		"Poly.ContainsLine: hole test with allowOnEdge=true", false},
	{"m4", "index", "geometry/qtree.go", "ibytes := numBytes(uint32(len(n.items)))", "var ibytes byte = 1",
		"qNode.compress: item width ignores the item count (256 items in one node)", false},
	{"m5", "index", "geometry/rtree.go", "\t\t}\n\t\tif b.max[i] > r.max[i] {", "\t\t} else if b.max[i] > r.max[i] {",
		"rRect.expand: second if -> else if", false},
	{"m6", "index", "geometry/qtree.go", "addr += 4", "addr += 3",
		"qCompressSearch: child address table stride 4 -> 3", false},
	{"m7", "lineline", "geometry/line.go", "for i := 0; i < lineNumSegments; i++ {", "for i := 0; i < lineNumSegments-1; i++ {",
		"Line.IntersectsLine: last segment of the driving line skipped", false},
	{"m8", "symmetry", "geometry/series.go", "if closed && b == c {", "if false && closed && b == c {",
		"processPoints: closing-vertex neighbour rule removed (re-introduces F2; symmetry suite must notice)", true},
}

type stRow struct {
	name, what, expect, got, wall, note string
	ok                                  bool
}

func selftest(repo, verif, only string) int {
	sel := map[string]bool{}
	for _, s := range strings.Split(only, ",") {
		if s != "" {
			sel[s] = true
		}
	}
	want := func(name string) bool { return len(sel) == 0 || sel[name] }
	scratch, err := os.MkdirTemp("", "govrac-selftest-")
	if err != nil {
		fmt.Println("govrac: internal error:", err)
		return 2
	}
	defer os.RemoveAll(scratch)
	sverif := filepath.Join(scratch, "verif")
	os.MkdirAll(sverif, 0o755)
	if b, err := os.ReadFile(filepath.Join(verif, "KNOWN_FINDINGS.txt")); err == nil {
		os.WriteFile(filepath.Join(sverif, "KNOWN_FINDINGS.txt"), b, 0o644)
	}
	var rows []stRow
	internal := false

	run := func(name, suite, r string) (int, string, string) {
		logf, _ := os.Create(filepath.Join(scratch, name+"-"+suite+".log"))
		start := time.Now()
		code := runSuite(logf, suite, r, sverif, "quick", 1, false)
		logf.Close()
		b, _ := os.ReadFile(logf.Name())
		note := ""
		n := 0
		for _, l := range strings.Split(string(b), "\n") {
			if strings.HasPrefix(l, "BOUNDED-FAILURE") {
				n++
				if note == "" {
					note = l
				}
			}
		}
		if len(note) > 230 {
			note = note[:230] + "..."
		}
		if n > 0 {
			note = fmt.Sprintf("%d BOUNDED-FAILURE lines; first: %s", n, note)
		}
		if code == 2 {
			note = "internal error: " + lastLines(string(b), 15)
		}
		return code, fmt.Sprintf("%.0fs", time.Since(start).Seconds()), note
	}

	// ---- oracle unit tests
	if want("oracle") {
		start := time.Now()
		cmd := exec.Command("go", "test", "-count=1", ".")
		cmd.Dir = filepath.Join(verif, "govrac")
		cmd.Env = goEnv()
		out, err := cmd.CombinedOutput()
		row := stRow{name: "oracle", what: "go test of module govrac: oNum vs big.Rat, >= 40 hand-computed cases, dense sampling, 8 lattice symmetries + re-encodings + operand swap",
			expect: "PASS", got: "PASS", wall: fmt.Sprintf("%.0fs", time.Since(start).Seconds()), ok: err == nil}
		if err != nil {
			row.got, row.note = "FAIL", lastLines(string(out), 15)
		}
		rows = append(rows, row)
	}
	// ---- the watchdog itself (hidden suite wdcheck)
	if want("watchdog") {
		start := time.Now()
		row := stRow{name: "watchdog", what: "hidden suite wdcheck: 7 normal calls, 1 over-budget call that returns normally -> HANG (result discarded), 8 panics -> PANIC, 8 endless loops stopped by poisoning -> HANG, 2 unstoppable loops -> worker abandoned + replaced, all other items still processed",
			expect: "7/1/8/8/2", got: "?"}
		res, err := execHarness("wdcheck", repo, "quick", 1, false)
		if err != nil || !res.done {
			row.note = fmt.Sprintf("did not complete: %v", err)
			if res != nil {
				row.note += " " + lastLines(strings.Join(res.other, "\n"), 15)
			}
			internal = true
		} else {
			count := func(fn, dec string) int64 {
				for _, f := range res.fails[fn] {
					if f.Decision == dec {
						return f.Count
					}
				}
				return 0
			}
			var cases int64
			for _, c := range res.checks {
				if c.Function == "wdcheck" {
					cases = c.Cases
				}
			}
			p, h, a := count("wdcheck", "panic"), count("wdcheck", "poison-hang"), count("wdcheck.watchdog", "HANG(abandoned)")
			o := count("wdcheck", "over-budget-return")
			row.got = fmt.Sprintf("%d/%d/%d/%d/%d", cases-p-h-o-6, o, p, h, a) // 6 = kind-3 items that make no call; the 2 abandoned items never reach their case counter
			row.ok = o == 1 && p == 8 && h == 8 && a == 2 && cases == 30 && count("wdcheck", "returned-from-endless-loop") == 0
			row.note = fmt.Sprintf("items completed by non-abandoned workers: %d of 32", cases)
		}
		row.wall = fmt.Sprintf("%.0fs", time.Since(start).Seconds())
		rows = append(rows, row)
	}
	// ---- baseline
	for _, s := range suites {
		if !want("baseline") && !want("baseline-"+s) {
			continue
		}
		code, wall, note := run("baseline", s, repo)
		rows = append(rows, stRow{name: "baseline-" + s, what: "unchanged tree, suite " + s + " (known findings allowed)", expect: "exit 0",
			got: fmt.Sprintf("exit %d", code), wall: wall, note: note, ok: code == 0})
		internal = internal || code == 2
	}
	// ---- mutants
	for _, m := range mutants {
		if !want(m.id) && !want("mutants") {
			continue
		}
		row := stRow{name: m.id, what: m.what + " -> suite " + m.suite, expect: "exit 1"}
		mrepo := filepath.Join(scratch, "repo-"+m.id)
		if out, err := exec.Command("rsync", "-a", "--exclude", ".git", strings.TrimRight(repo, "/")+"/", mrepo+"/").CombinedOutput(); err != nil {
			row.got, row.note = "error", "rsync: "+err.Error()+" "+string(out)
			rows = append(rows, row)
			internal = true
			continue
		}
		p := filepath.Join(mrepo, m.file)
		src, err := os.ReadFile(p)
		if n := strings.Count(string(src), m.old); err != nil || n != 1 {
			row.got = "not applicable"
			row.note = fmt.Sprintf("pattern %q occurs %d times in %s", m.old, n, m.file)
			row.ok = m.optional
			internal = internal || !m.optional
			rows = append(rows, row)
			os.RemoveAll(mrepo)
			continue
		}
		os.WriteFile(p, []byte(strings.Replace(string(src), m.old, m.new, 1)), 0o644)
		code, wall, note := run(m.id, m.suite, mrepo)
		row.got, row.wall, row.note, row.ok = fmt.Sprintf("exit %d", code), wall, note, code == 1
		// the first replay files of the run must FAIL on the mutant and PASS on the unchanged tree
		if code == 1 {
			for n := 1; n <= 2; n++ {
				rp := filepath.Join(sverif, "replays", "bounded", m.suite, fmt.Sprintf("%d.json", n))
				onMutant, err1 := runReplay(rp, mrepo, scratch)
				onOrig, err2 := runReplay(rp, repo, scratch)
				switch {
				case err1 != nil || err2 != nil:
					row.ok = false
					row.note += fmt.Sprintf("\n     replay %d: error %v %v", n, err1, err2)
				case onMutant || !onOrig:
					row.ok = false
					row.note += fmt.Sprintf("\n     replay %d: passes on the mutant=%v, passes on the unchanged tree=%v (expected false/true)", n, onMutant, onOrig)
				default:
					row.note += fmt.Sprintf("\n     replay %d: go_test fails on the mutant and passes on the unchanged tree", n)
				}
			}
		}
		os.RemoveAll(mrepo)
		internal = internal || code == 2
		rows = append(rows, row)
	}
	fmt.Printf("%-18s %-8s %-8s %-6s %s\n", "check", "expected", "got", "wall", "what")
	allOK := true
	for _, r := range rows {
		verdict := "ok  "
		if !r.ok {
			verdict = "FAIL"
			allOK = false
		}
		fmt.Printf("%s %-13s %-8s %-8s %-6s %s\n", verdict, r.name, r.expect, r.got, r.wall, r.what)
		if r.note != "" {
			fmt.Printf("     %s\n", r.note)
		}
	}
	switch {
	case internal:
		fmt.Println("govrac selftest: INTERNAL ERROR")
		return 2
	case !allOK:
		fmt.Println("govrac selftest: FAILED")
		return 1
	}
	fmt.Println("govrac selftest: ok")
	return 0
}

// runReplay injects the go_test_file of a replay into repo/geometry with -overlay and reports
// whether the test passes.
func runReplay(replayFile, repo, scratch string) (bool, error) {
	b, err := os.ReadFile(replayFile)
	if err != nil {
		return false, err
	}
	var rep struct {
		File string `json:"go_test_file"`
	}
	if err := json.Unmarshal(b, &rep); err != nil || rep.File == "" {
		return false, fmt.Errorf("no go_test_file in %s", replayFile)
	}
	dir, err := os.MkdirTemp(scratch, "replay-")
	if err != nil {
		return false, err
	}
	defer os.RemoveAll(dir)
	src := filepath.Join(dir, "zz_replay_test.go")
	os.WriteFile(src, []byte(rep.File), 0o644)
	pkg, _ := filepath.Abs(filepath.Join(repo, "geometry"))
	ov, _ := json.Marshal(map[string]interface{}{"Replace": map[string]string{filepath.Join(pkg, "zz_replay_test.go"): src}})
	ovFile := filepath.Join(dir, "overlay.json")
	os.WriteFile(ovFile, ov, 0o644)
	cmd := exec.Command("go", "test", "-overlay", ovFile, "-vet=off", "-count=1", "-timeout", "60s", "-run", "^TestGovracReplay$", ".")
	cmd.Dir = pkg
	cmd.Env = goEnv()
	out, err := cmd.CombinedOutput()
	if err == nil {
		return true, nil
	}
	if strings.Contains(string(out), "[build failed]") || strings.Contains(string(out), "[setup failed]") {
		return false, fmt.Errorf("replay does not compile: %s", lastLines(string(out), 8))
	}
	return false, nil
}

func lastLines(s string, n int) string {
	l := strings.Split(strings.TrimRight(s, "\n"), "\n")
	if len(l) > n {
		l = l[len(l)-n:]
	}
	return strings.Join(l, "\n     ")
}
