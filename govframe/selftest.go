package main

import (
	"bytes"
	"encoding/json"
	"fmt"
	"os"
	"os/exec"
	"path/filepath"
	"strings"
	"sync"
	"time"
)

// Mutant is one entry of mutants.json: an exact-once string replacement in one file of the repository.
type Mutant struct {
	Name     string `json:"name"`
	Property string `json:"property"`
	File     string `json:"file"`
	Old      string `json:"old"`
	New      string `json:"new"`
	Expect   string `json:"expect,omitempty"` // "violation" (default) or "clean" (harmless refactoring that must not alarm)
	Note     string `json:"note,omitempty"`
	Edits    []struct {
		File string `json:"file"`
		Old  string `json:"old"`
		New  string `json:"new"`
	} `json:"edits,omitempty"` // optional further replacements
}

type selfResult struct {
	m        Mutant
	outcome  string // killed | survived | clean | false-alarm | error
	detail   string
	firstHit string
	wall     float64
}

func runSelftest(opts options) int {
	path := filepath.Join(opts.verif, "govframe", "mutants.json")
	data, err := os.ReadFile(path)
	if err != nil {
		fmt.Fprintln(os.Stderr, "govframe selftest:", err)
		return 2
	}
	var muts []Mutant
	if err := json.Unmarshal(data, &muts); err != nil {
		fmt.Fprintln(os.Stderr, "govframe selftest: mutants.json:", err)
		return 2
	}
	// baseline: the unchanged tree must be clean for both properties
	base := []Mutant{
		{Name: "baseline-unchanged-C16", Property: "C16", Expect: "clean"},
		{Name: "baseline-unchanged-C17", Property: "C17", Expect: "clean"},
	}
	muts = append(base, muts...)
	self, err := os.Executable()
	if err != nil {
		fmt.Fprintln(os.Stderr, "govframe selftest:", err)
		return 2
	}
	results := make([]selfResult, len(muts))
	var wg sync.WaitGroup
	sem := make(chan struct{}, 4)
	for i := range muts {
		wg.Add(1)
		go func(i int) {
			defer wg.Done()
			sem <- struct{}{}
			defer func() { <-sem }()
			results[i] = runMutant(self, opts, muts[i])
		}(i)
	}
	wg.Wait()
	bad := 0
	fmt.Printf("%-44s %-4s %-10s %-12s %6s  %s\n", "mutant", "prop", "expect", "outcome", "wall", "first failed obligation / detail")
	for _, r := range results {
		exp := r.m.Expect
		if exp == "" {
			exp = "violation"
		}
		good := (exp == "violation" && r.outcome == "killed") || (exp == "clean" && r.outcome == "clean")
		if !good {
			bad++
		}
		d := r.firstHit
		if d == "" {
			d = r.detail
		}
		fmt.Printf("%-44s %-4s %-10s %-12s %5.1fs  %s\n", r.m.Name, r.m.Property, exp, r.outcome, r.wall, d)
	}
	fmt.Printf("govframe selftest: %d cases, %d unexpected\n", len(results), bad)
	if bad > 0 {
		return 1
	}
	return 0
}

func applyEdit(root, file, old, new string) error {
	p := filepath.Join(root, file)
	src, err := os.ReadFile(p)
	if err != nil {
		return err
	}
	if n := strings.Count(string(src), old); n != 1 {
		return fmt.Errorf("%s: old text occurs %d times (want exactly once)", file, n)
	}
	return os.WriteFile(p, []byte(strings.Replace(string(src), old, new, 1)), 0o644)
}

func runMutant(self string, opts options, m Mutant) selfResult {
	start := time.Now()
	res := selfResult{m: m}
	fail := func(format string, a ...interface{}) selfResult {
		res.outcome = "error"
		res.detail = fmt.Sprintf(format, a...)
		res.wall = time.Since(start).Seconds()
		return res
	}
	tmp, err := os.MkdirTemp("", "govframe-selftest-")
	if err != nil {
		return fail("%v", err)
	}
	defer os.RemoveAll(tmp)
	scratch := filepath.Join(tmp, "repo")
	sverif := filepath.Join(tmp, "verif")
	os.MkdirAll(scratch, 0o755)
	os.MkdirAll(sverif, 0o755)
	src := strings.TrimRight(opts.repo, "/") + "/"
	if out, err := exec.Command("rsync", "-a", "--exclude", ".git", src, scratch+"/").CombinedOutput(); err != nil {
		return fail("rsync: %v: %s", err, out)
	}
	if m.File != "" {
		if err := applyEdit(scratch, m.File, m.Old, m.New); err != nil {
			return fail("mutant does not apply: %v", err)
		}
	}
	for _, e := range m.Edits {
		if err := applyEdit(scratch, e.File, e.Old, e.New); err != nil {
			return fail("mutant does not apply: %v", err)
		}
	}
	if m.File != "" {
		bc := exec.Command("go", "build", "./...")
		bc.Dir = scratch
		bc.Env = goEnv()
		if out, err := bc.CombinedOutput(); err != nil {
			return fail("mutant does not compile: %s", strings.TrimSpace(string(out)))
		}
	}
	cmd := exec.Command(self, "check", m.Property, "--repo", scratch, "--verif", sverif)
	var out bytes.Buffer
	cmd.Stdout = &out
	cmd.Stderr = &out
	cmd.Env = goEnv()
	err = cmd.Run()
	code := 0
	if ee, ok := err.(*exec.ExitError); ok {
		code = ee.ExitCode()
	} else if err != nil {
		return fail("cannot run checker: %v", err)
	}
	hasViolation := false
	lines := strings.Split(out.String(), "\n")
	for i, ln := range lines {
		if strings.HasPrefix(ln, "VIOLATION property="+m.Property+" ") && strings.HasSuffix(ln, "no-failing-input-found") {
			if !hasViolation && i+1 < len(lines) {
				res.firstHit = strings.TrimSpace(lines[i+1])
				if len(res.firstHit) > 110 {
					res.firstHit = res.firstHit[:110] + "..."
				}
			}
			hasViolation = true
		}
	}
	switch {
	case code == 1 && hasViolation:
		res.outcome = "killed"
		if m.Expect == "clean" {
			res.outcome = "false-alarm"
		}
	case code == 0 && !hasViolation:
		res.outcome = "clean"
		if m.Expect != "clean" {
			res.outcome = "survived"
		}
	default:
		res.outcome = "error"
		res.detail = fmt.Sprintf("exit code %d, violation line present: %v", code, hasViolation)
	}
	res.wall = time.Since(start).Seconds()
	return res
}
