package main

import (
	"fmt"
	"go/ast"
	"go/types"
	"sort"
	"strings"

	"golang.org/x/tools/go/ssa"
)

// C17, the parts a frame checker can decide:
//   #append.useN / #append.retN : append discipline on the dst parameter of every writer
//   #api.sameBytes              : JSON()/String()/MarshalJSON() are computed from one AppendJSON(nil) on the same receiver
//   #float.viaAppendJSONFloat   : no float is formatted other than through appendJSONFloat

var apiShapes = []string{
	"JSON() / String():  { return string(R.AppendJSON(nil)) }   -- R the receiver identifier, string and nil the predeclared ones, AppendJSON resolved on the receiver's own type",
	"MarshalJSON():      { return R.AppendJSON(nil), nil }",
	"String():           { return R.JSON() }                    -- accepted (JSON() of the same type is itself checked); not used by the unchanged tree",
	"promoted method:    a type that obtains JSON/String/MarshalJSON by embedding must obtain AppendJSON from the same embedded type",
}

func (w *World) rootPkg() *ssa.Package {
	for _, p := range w.pkgs {
		if p.Types.Name() == "geojson" {
			return w.prog.Package(p.Types)
		}
	}
	return nil
}

func isByteSlice(t types.Type) bool {
	s, ok := t.Underlying().(*types.Slice)
	if !ok {
		return false
	}
	b, ok := s.Elem().Underlying().(*types.Basic)
	return ok && b.Kind() == types.Byte
}

func isFloat(t types.Type) bool {
	b, ok := t.Underlying().(*types.Basic)
	return ok && b.Info()&types.IsFloat != 0
}

// writerDst: is fn a writer (AppendJSON / appendJSON*) and which parameter is dst?
func writerDst(fn *ssa.Function) (*ssa.Parameter, string) {
	name := fn.Name()
	if name != "AppendJSON" && !strings.HasPrefix(name, "appendJSON") {
		return nil, ""
	}
	res := fn.Signature.Results()
	if res.Len() == 0 || !isByteSlice(res.At(0).Type()) {
		return nil, "writer-named function whose first result is not []byte"
	}
	var dst *ssa.Parameter
	for _, p := range fn.Params {
		if p.Name() == "dst" && isByteSlice(p.Type()) {
			dst = p
		}
	}
	if dst == nil {
		return nil, "writer-named function without a `dst []byte` parameter"
	}
	return dst, ""
}

func checkC17(w *World, opts options) *checkResult {
	var obls []*Obligation
	rp := w.rootPkg()
	if rp == nil {
		return &checkResult{obls: []*Obligation{{Name: "geojson#append.load1", Prop: "C17", Func: "(load)", Kind: "load",
			OK: false, Reason: "root package geojson not found"}}}
	}
	var rootFns []*ssa.Function
	for _, fn := range w.funcs {
		if fn.Pkg == rp {
			rootFns = append(rootFns, fn)
		}
	}

	// ---- 1. append discipline ---------------------------------------------------
	writers := map[*ssa.Function]*ssa.Parameter{}
	var writerNames []string
	for _, fn := range rootFns {
		dst, bad := writerDst(fn)
		if bad != "" {
			obls = append(obls, &Obligation{Name: w.display[fn] + "#append.use0", Prop: "C17", Func: w.display[fn], Kind: "append",
				Instr: fn.Signature.String(), Pos: w.relPos(fn.Pos()), OK: false, Reason: bad})
			continue
		}
		if dst != nil {
			writers[fn] = dst
			writerNames = append(writerNames, w.display[fn])
		}
	}
	dstIndex := func(fn *ssa.Function) int {
		for i, p := range fn.Params {
			if p == writers[fn] {
				return i
			}
		}
		return -1
	}
	for _, fn := range rootFns {
		dst := writers[fn]
		if dst == nil {
			continue
		}
		if len(fn.AnonFuncs) > 0 {
			obls = append(obls, &Obligation{Name: w.display[fn] + "#append.use0", Prop: "C17", Func: w.display[fn], Kind: "append",
				Instr: "(closures)", Pos: w.relPos(fn.Pos()), OK: false, Reason: "writer contains closures: the dst discipline is only decided for closure-free writers"})
		}
		// D: the set of SSA values that denote "the buffer being appended to"
		D := map[ssa.Value]bool{dst: true}
		isWriterCallWithD := func(c *ssa.CallCommon) (ok bool, why string) {
			args := callArgs(c)
			if c.IsInvoke() {
				if c.Method.Name() != "AppendJSON" {
					return false, ""
				}
				// every module implementation must itself be a checked writer
				iface, _ := c.Value.Type().Underlying().(*types.Interface)
				for _, cal := range w.cha(iface, c.Method) {
					if writers[cal] == nil {
						return false, ""
					}
				}
				return len(args) == 2 && D[args[1]], "dst argument of interface method AppendJSON (all module implementations are checked writers)"
			}
			cal := c.StaticCallee()
			if cal == nil {
				return false, ""
			}
			if writers[cal] != nil {
				i := dstIndex(cal)
				n := 0
				for j, a := range args {
					if D[a] {
						n++
						if j != i {
							return false, ""
						}
					}
				}
				return n == 1 && i < len(args) && D[args[i]], "dst argument of writer " + w.display[cal]
			}
			if externPkg(cal) == "strconv" && strings.HasPrefix(cal.Name(), "Append") && !w.isModuleFn(cal) {
				n := 0
				for _, a := range args {
					if D[a] {
						n++
					}
				}
				return n == 1 && len(args) > 0 && D[args[0]], "dst argument of " + externName(cal) + " (append-like, A-STRCONV)"
			}
			return false, ""
		}
		// grow D to a fixpoint
		for changed := true; changed; {
			changed = false
			for _, b := range fn.Blocks {
				for _, ins := range b.Instrs {
					v, isVal := ins.(ssa.Value)
					if !isVal || D[v] {
						continue
					}
					switch x := ins.(type) {
					case *ssa.Phi:
						// optimistic (loops): a phi with some dst-derived edge is dst-derived;
						// that ALL its edges are dst-derived is an obligation checked below
						for _, e := range x.Edges {
							if D[e] {
								D[v], changed = true, true
							}
						}
					case *ssa.Call:
						c := x.Common()
						if bi, ok := c.Value.(*ssa.Builtin); ok && bi.Name() == "append" {
							if D[c.Args[0]] && (len(c.Args) < 2 || !D[c.Args[1]]) {
								D[v], changed = true, true
							}
							continue
						}
						if ok, _ := isWriterCallWithD(c); ok {
							D[v], changed = true, true
						}
					case *ssa.Extract:
						if x.Index == 0 && D[x.Tuple] {
							D[v], changed = true, true
						}
					}
				}
			}
		}
		// a phi with only some D edges mixes dst with something else: handled as a (failing) use below
		n := 0
		emit := func(ins ssa.Instruction, ok bool, rule, reason string) {
			n++
			obls = append(obls, &Obligation{Name: fmt.Sprintf("%s#append.use%d", w.display[fn], n), Prop: "C17", Func: w.display[fn],
				Kind: "append.use", Instr: instrText(ins), Pos: w.instrPos(ins), OK: ok, Rule: rule, Reason: reason})
		}
		for _, b := range fn.Blocks {
			for _, ins := range b.Instrs {
				usesD := false
				for _, op := range ins.Operands(nil) {
					if op != nil && *op != nil && D[*op] {
						usesD = true
					}
				}
				if !usesD {
					continue
				}
				switch x := ins.(type) {
				case *ssa.DebugRef:
				case *ssa.Phi:
					all := true
					for _, e := range x.Edges {
						if !D[e] {
							all = false
						}
					}
					if all {
						emit(ins, true, "reassign", "control-flow merge of dst-derived values only")
					} else {
						emit(ins, false, "", "dst is merged with a value that is not derived from dst")
					}
				case *ssa.Extract:
					if D[x] {
						emit(ins, true, "reassign", "first result of a writer call")
					} else if x.Index == 0 {
						emit(ins, false, "", "extracts a non-writer result from dst")
					}
				case *ssa.Return:
					okAll := true
					for i, r := range x.Results {
						if D[r] && i != 0 {
							okAll = false
						}
					}
					if okAll {
						emit(ins, true, "return", "dst-derived buffer returned as the first result")
					} else {
						emit(ins, false, "", "dst returned in a position other than the first result")
					}
				case *ssa.Call:
					c := x.Common()
					if bi, ok := c.Value.(*ssa.Builtin); ok {
						switch bi.Name() {
						case "append":
							if D[c.Args[0]] && (len(c.Args) < 2 || !D[c.Args[1]]) {
								emit(ins, true, "append", "first argument of append (existing elements preserved, A-GO)")
							} else {
								emit(ins, false, "", "dst is used as an appended operand: the bytes written would depend on dst")
							}
						case "len":
							emit(ins, true, "len", "len(dst)")
						default:
							emit(ins, false, "", "dst passed to builtin "+bi.Name())
						}
						continue
					}
					if ok, why := isWriterCallWithD(c); ok {
						emit(ins, true, "writer-call", why)
					} else {
						emit(ins, false, "", "dst is passed to a callee that is not a checked writer (or not as its dst argument)")
					}
				case *ssa.Slice:
					emit(ins, false, "", "dst is resliced: a reslice may shorten dst below its entry length or expose spare capacity")
				case *ssa.IndexAddr:
					emit(ins, false, "", "indexed access into dst: a store through it would modify the prefix")
				default:
					emit(ins, false, "", fmt.Sprintf("dst is used by %T, which is none of append-first-argument / writer dst argument / return / len", ins))
				}
			}
		}
		// every return must hand back the dst-derived buffer
		r := 0
		for _, b := range fn.Blocks {
			for _, ins := range b.Instrs {
				ret, ok := ins.(*ssa.Return)
				if !ok || len(ret.Results) == 0 {
					continue
				}
				r++
				ob := &Obligation{Name: fmt.Sprintf("%s#append.ret%d", w.display[fn], r), Prop: "C17", Func: w.display[fn], Kind: "append.ret",
					Instr: instrText(ins), Pos: w.instrPos(ins), OK: D[ret.Results[0]], Rule: "return",
					Reason: "the first result is derived from dst only through append / writer calls"}
				if !ob.OK {
					ob.Rule = ""
					ob.Reason = "the first result is not derived from dst: AppendJSON(prefix) would not return prefix followed by the encoding"
				}
				obls = append(obls, ob)
			}
		}
	}

	// ---- 2. API equalities ----------------------------------------------------------
	obls = append(obls, checkAPI(w)...)

	// ---- 3. floats go through appendJSONFloat ------------------------------------------
	var allRoot []*ssa.Function
	var addAnon func(fn *ssa.Function)
	addAnon = func(fn *ssa.Function) {
		allRoot = append(allRoot, fn)
		for _, an := range fn.AnonFuncs {
			addAnon(an)
		}
	}
	for _, fn := range w.funcs { // all module packages: a float formatted in geometry/geo could reach a writer as a string
		addAnon(fn)
	}
	for _, fn := range allRoot {
		sites := 0
		bad := 0
		for _, b := range fn.Blocks {
			for _, ins := range b.Instrs {
				ci, ok := ins.(ssa.CallInstruction)
				if !ok {
					continue
				}
				c := ci.Common()
				cal := c.StaticCallee()
				if cal == nil || w.isModuleFn(cal) {
					continue
				}
				pkg := externPkg(cal)
				if pkg != "strconv" && pkg != "fmt" {
					continue
				}
				sites++
				floatArg := ""
				for _, a := range c.Args {
					if isFloat(a.Type()) {
						floatArg = a.Name()
					}
					// variadic ...interface{}: look through the backing array for boxed floats
					if sl, ok := a.(*ssa.Slice); ok {
						if al, ok := sl.X.(*ssa.Alloc); ok {
							for _, ref := range *al.Referrers() {
								ia, ok := ref.(*ssa.IndexAddr)
								if !ok {
									continue
								}
								for _, r2 := range *ia.Referrers() {
									if st, ok := r2.(*ssa.Store); ok {
										if mi, ok := st.Val.(*ssa.MakeInterface); ok && isFloat(mi.X.Type()) {
											floatArg = mi.X.Name()
										}
									}
								}
							}
						}
					}
				}
				ok2 := floatArg == "" || fn.Name() == "appendJSONFloat" && fn.Parent() == nil
				name := fmt.Sprintf("%s#float.viaAppendJSONFloat%d", w.display[fn], sites)
				ob := &Obligation{Name: name, Prop: "C17", Func: w.display[fn], Kind: "float", Instr: instrText(ins), Pos: w.instrPos(ins), OK: ok2, Rule: "float"}
				switch {
				case floatArg == "":
					ob.Reason = "strconv/fmt call formats no floating-point operand"
				case ok2:
					ob.Reason = "the one place where floats are formatted: appendJSONFloat (NaN/Inf are mapped to null before this call)"
				default:
					bad++
					ob.Rule = ""
					ob.Reason = "a floating-point value (" + floatArg + ") is formatted directly by " + externName(cal) + " instead of through appendJSONFloat: NaN/Inf would be written as bare tokens"
				}
				obls = append(obls, ob)
			}
		}
		if writers[fn] != nil {
			obls = append(obls, &Obligation{Name: w.display[fn] + "#float.viaAppendJSONFloat", Prop: "C17", Func: w.display[fn], Kind: "float",
				Instr: "(whole body)", Pos: w.relPos(fn.Pos()), OK: bad == 0, Rule: "float",
				Reason: fmt.Sprintf("writer body contains %d strconv/fmt call(s), %d of them formatting a float outside appendJSONFloat", sites, bad)})
		}
	}

	sort.Strings(writerNames)
	return &checkResult{
		obls: obls,
		trusted: []string{
			"A-GO: append(dst, ...) preserves the first len(dst) elements of dst; it may write spare capacity, which is not visible contents",
			"A-STRCONV: strconv.AppendFloat(dst, ...) is append-like on dst and writes a JSON number token for finite values",
			"CHA call-graph soundness: a call x.AppendJSON(dst) through an interface reaches only the module's writers (all of which are checked); user-defined Object implementations are outside the contract",
			"go/ssa (x/tools v0.29.0) and go/types faithfully represent the compiled code; absence of reflect/unsafe as scanned by C16",
			"the contents of the appended bytes (JSON grammar, type literal, nesting depth, member invariant) are NOT decided here",
		},
		assumptions: []string{"A-GO (append semantics)", "A-STRCONV", "CHA restricted to module types"},
		explanation: "Append discipline: in every AppendJSON / appendJSON* function of the root package the dst parameter (and every value derived from it by append, by a checked writer call, or by a control-flow merge of such values) " +
			"may only be used as the first argument of append, as the dst argument of a checked writer (static, strconv.Append*, or interface AppendJSON whose module implementations are all checked writers), returned as the first result, or measured with len; " +
			"every return must return such a value. Hence AppendJSON(prefix) = prefix ++ bytes, with the prefix unmodified. " +
			"API equalities: JSON/String/MarshalJSON bodies match one of the accepted syntactic shapes (one AppendJSON(nil) call on the same receiver). " +
			"Floats: every strconv/fmt call in the root package is inspected; only appendJSONFloat may format a float.",
		extras: map[string]interface{}{
			"writers":             writerNames,
			"functions_analysed":  len(allRoot),
			"api_shapes_accepted": apiShapes,
		},
	}
}

// checkAPI: one obligation per (type, method) for JSON, String, MarshalJSON of every root-package type with AppendJSON.
func checkAPI(w *World) []*Obligation {
	var obls []*Obligation
	var pkgInfo *types.Info
	var rootTypes *types.Package
	declOf := map[*types.Func]*ast.FuncDecl{}
	for _, p := range w.pkgs {
		if p.Types.Name() != "geojson" {
			continue
		}
		pkgInfo = p.TypesInfo
		rootTypes = p.Types
		for _, file := range p.Syntax {
			for _, d := range file.Decls {
				if fd, ok := d.(*ast.FuncDecl); ok {
					if obj, ok := p.TypesInfo.Defs[fd.Name].(*types.Func); ok {
						declOf[obj] = fd
					}
				}
			}
		}
	}
	if rootTypes == nil {
		return nil
	}
	lookup := func(t types.Type, name string) *types.Func {
		sel := types.NewMethodSet(types.NewPointer(t)).Lookup(rootTypes, name)
		if sel == nil {
			return nil
		}
		f, _ := sel.Obj().(*types.Func)
		return f
	}
	for _, named := range w.namedTs {
		if named.Obj().Pkg() != rootTypes {
			continue
		}
		if _, isIface := named.Underlying().(*types.Interface); isIface {
			continue
		}
		app := lookup(named, "AppendJSON")
		if app == nil {
			continue
		}
		appOwner := recvNamed(app.Type().(*types.Signature).Recv().Type())
		for _, mname := range []string{"JSON", "MarshalJSON", "String"} {
			m := lookup(named, mname)
			base := fmt.Sprintf("geojson.%s.%s", named.Obj().Name(), mname)
			ob := &Obligation{Name: base + "#api.sameBytes", Prop: "C17", Func: base, Kind: "api", Rule: "api"}
			obls = append(obls, ob)
			if m == nil {
				ob.OK = true
				ob.Instr = "(no such method)"
				ob.Reason = "type has AppendJSON but no " + mname + ": nothing to compare"
				continue
			}
			owner := recvNamed(m.Type().(*types.Signature).Recv().Type())
			ob.Pos = w.relPos(m.Pos())
			if owner != named {
				// promoted method: consistent only if AppendJSON is promoted from the same type
				ob.Instr = fmt.Sprintf("promoted from %s", owner.Obj().Name())
				ob.OK = owner == appOwner
				if ob.OK {
					ob.Reason = "method and AppendJSON are both promoted from " + owner.Obj().Name() + ", whose own obligation covers the equality"
				} else {
					ob.Rule = ""
					ob.Reason = fmt.Sprintf("%s is promoted from %s but AppendJSON is declared on %s: %s() would not return the bytes of this type's AppendJSON",
						mname, owner.Obj().Name(), appOwner.Obj().Name(), mname)
				}
				continue
			}
			fd := declOf[m]
			if fd == nil || fd.Body == nil {
				ob.Rule = ""
				ob.Reason = "no declaration found"
				continue
			}
			shape, why := apiShape(pkgInfo, fd, mname, named)
			ob.Instr = shape
			ob.OK = why == ""
			if ob.OK {
				ob.Reason = "body has accepted shape: " + shape
			} else {
				ob.Rule = ""
				ob.Reason = why
			}
		}
	}
	return obls
}

// apiShape decides (syntactically, with identifiers resolved by go/types) whether the body has an accepted shape.
func apiShape(info *types.Info, fd *ast.FuncDecl, mname string, named *types.Named) (shape string, why string) {
	if fd.Recv == nil || len(fd.Recv.List) != 1 || len(fd.Recv.List[0].Names) != 1 {
		return "", "receiver is not a single named identifier"
	}
	recvObj := info.Defs[fd.Recv.List[0].Names[0]]
	sig := info.Defs[fd.Name].Type().(*types.Signature)
	wantSig := map[string]string{"JSON": "func() string", "String": "func() string", "MarshalJSON": "func() ([]byte, error)"}[mname]
	if got := types.TypeString(types.NewSignatureType(nil, nil, nil, sig.Params(), sig.Results(), sig.Variadic()), nil); got != wantSig {
		return got, "" // a different method that happens to share the name (not part of the Object API)
	}
	if len(fd.Body.List) != 1 {
		return "", fmt.Sprintf("body has %d statements; accepted shapes are a single return", len(fd.Body.List))
	}
	ret, ok := fd.Body.List[0].(*ast.ReturnStmt)
	if !ok {
		return "", "body is not a single return statement"
	}
	isRecv := func(e ast.Expr) bool {
		id, ok := ast.Unparen(e).(*ast.Ident)
		return ok && recvObj != nil && info.Uses[id] == recvObj
	}
	isNil := func(e ast.Expr) bool {
		id, ok := ast.Unparen(e).(*ast.Ident)
		if !ok {
			return false
		}
		_, isNilObj := info.Uses[id].(*types.Nil)
		return isNilObj
	}
	// R.<name>(args...) resolved to a method declared on the receiver's own type (or promoted: decided by method set)
	recvCall := func(e ast.Expr, name string, nargs int) (*ast.CallExpr, bool) {
		call, ok := ast.Unparen(e).(*ast.CallExpr)
		if !ok || len(call.Args) != nargs || call.Ellipsis.IsValid() {
			return nil, false
		}
		sel, ok := call.Fun.(*ast.SelectorExpr)
		if !ok || sel.Sel.Name != name || !isRecv(sel.X) {
			return nil, false
		}
		s := info.Selections[sel]
		if s == nil || s.Kind() != types.MethodVal {
			return nil, false
		}
		return call, true
	}
	appendNil := func(e ast.Expr) bool {
		call, ok := recvCall(e, "AppendJSON", 1)
		return ok && isNil(call.Args[0])
	}
	switch mname {
	case "JSON", "String":
		if len(ret.Results) != 1 {
			return "", "return does not have exactly one result"
		}
		if mname == "String" {
			if _, ok := recvCall(ret.Results[0], "JSON", 0); ok {
				return "return R.JSON()", ""
			}
		}
		conv, ok := ast.Unparen(ret.Results[0]).(*ast.CallExpr)
		if ok && len(conv.Args) == 1 {
			if id, ok := conv.Fun.(*ast.Ident); ok {
				if tn, ok := info.Uses[id].(*types.TypeName); ok && tn.Pkg() == nil && tn.Name() == "string" {
					if appendNil(conv.Args[0]) {
						return "return string(R.AppendJSON(nil))", ""
					}
				}
			}
		}
		return "", "result is not string(R.AppendJSON(nil)) on the method's own receiver: it is not computed from exactly one AppendJSON(nil) call"
	case "MarshalJSON":
		if len(ret.Results) != 2 {
			return "", "return does not have exactly two results"
		}
		if appendNil(ret.Results[0]) && isNil(ret.Results[1]) {
			return "return R.AppendJSON(nil), nil", ""
		}
		return "", "results are not (R.AppendJSON(nil), nil) on the method's own receiver"
	}
	return "", "unexpected method"
}
