package main

import (
	"fmt"
	"path/filepath"
	"sort"
	"strconv"
	"strings"

	"golang.org/x/tools/go/ssa"
)

// forbidden imports for the nondeterminism/unsafe scan (AST level, per file).
var forbiddenImports = map[string]string{
	"unsafe":       "unsafe",
	"reflect":      "reflect",
	"C":            "cgo",
	"sync":         "sync",
	"sync/atomic":  "sync/atomic",
	"math/rand":    "math/rand",
	"math/rand/v2": "math/rand",
	"crypto/rand":  "crypto/rand",
	"time":         "time (time.Now)",
	"os":           "os (environment / files)",
	"runtime":      "runtime",
}

func checkC16(w *World, opts options) *checkResult {
	f := newFrame(w)
	f.run(w.funcs)
	obls := f.obls

	if opts.tier == "thorough" {
		// confluence check: the fixpoint must not depend on the order in which functions are visited
		rev := make([]*ssa.Function, len(w.funcs))
		for i, fn := range w.funcs {
			rev[len(w.funcs)-1-i] = fn
		}
		f2 := newFrame(w)
		f2.run(rev)
		a, b := oblDigest(f.obls), oblDigest(f2.obls)
		ok := a == b
		reason := "the analysis run with the reverse function order yields the identical set of obligations and verdicts"
		if !ok {
			reason = "the analysis is order dependent: forward and reverse function orders disagree"
		}
		obls = append(obls, &Obligation{Name: "govframe#frame.confluence1", Prop: "C16", Func: "(analysis)", Kind: "meta",
			Instr: "fixpoint(forward) == fixpoint(reverse)", OK: ok, Rule: "meta", Reason: reason})
	}

	// AST-level import scan, one obligation per source file
	for _, p := range w.pkgs {
		for i, file := range p.Syntax {
			_ = i
			fname := filepath.Base(w.fset.Position(file.Pos()).Filename)
			var bad []string
			for _, imp := range file.Imports {
				path, _ := strconv.Unquote(imp.Path.Value)
				if what, ok := forbiddenImports[path]; ok {
					bad = append(bad, what)
				}
			}
			base := shortPkg(p.Types) + "." + fname
			if len(bad) == 0 {
				obls = append(obls, &Obligation{Name: base + "#frame.nondet0", Prop: "C16", Func: base, Kind: "nondet",
					Instr: "(import declarations)", Pos: w.relPos(file.Pos()), OK: true, Rule: "scan",
					Reason: "imports none of unsafe, reflect, C, sync, sync/atomic, math/rand, crypto/rand, time, os, runtime"})
			}
			for k, b := range bad {
				obls = append(obls, &Obligation{Name: fmt.Sprintf("%s#frame.nondet%d", base, k+1), Prop: "C16", Func: base, Kind: "nondet",
					Instr: "import " + b, Pos: w.relPos(file.Pos()), OK: false,
					Reason: "nondeterminism/unsafe construct that must be absent: import of " + b})
			}
		}
	}

	reach := w.reachableFromRoots()
	for _, ob := range obls {
		if ob.Reach != "" {
			continue
		}
		ob.Reach = "constructor-only"
	}
	reachByName := map[string]bool{}
	for fn := range reach {
		reachByName[w.display[fn]] = true
	}
	nReach := 0
	for _, ob := range obls {
		if reachByName[ob.Func] {
			ob.Reach = "root-reachable"
		}
	}
	for range reach {
		nReach++
	}

	var roots, exempt, addrTaken []string
	for fn := range w.roots {
		roots = append(roots, w.display[fn])
	}
	for fn := range w.exempt {
		exempt = append(exempt, w.display[fn])
	}
	for fn := range w.addrTaken {
		if n, ok := w.display[fn]; ok {
			addrTaken = append(addrTaken, n)
		}
	}
	sort.Strings(roots)
	sort.Strings(exempt)
	sort.Strings(addrTaken)
	nfuncs := 0
	var countAnon func(fn *ssa.Function)
	countAnon = func(fn *ssa.Function) {
		nfuncs++
		for _, an := range fn.AnonFuncs {
			countAnon(an)
		}
	}
	for _, fn := range w.funcs {
		countAnon(fn)
	}
	// parameters that carry a "caller must own" demand, with the number of checked call sites
	var demands []string
	for _, fn := range w.funcs {
		sum := f.sums[fn]
		for i := 0; i < maxParams && i < len(fn.Params); i++ {
			if len(sum.dem[0][i]) > 0 || len(sum.dem[1][i]) > 0 {
				kind := "direct"
				if len(sum.dem[1][i]) > 0 {
					kind = "deep"
				}
				demands = append(demands, fmt.Sprintf("%s(%s): %s, %d module call sites checked", w.display[fn], fn.Params[i].Name(), kind, f.callSitesOf[fn]))
			}
		}
	}
	var externs []string
	for n, note := range f.externUsed {
		externs = append(externs, n+": "+note)
	}
	sort.Strings(externs)

	trusted := append([]string{}, trustedExternFrames...)
	trusted = append(trusted,
		"A-MEM: Go memory model: goroutines that only read memory written before they started have no data race",
		"CHA call-graph soundness: interface calls are resolved to the methods of all named types of the module implementing the interface; implementations outside the module (user types) are outside the contract",
		"absence of reflect/unsafe/cgo/sync/time/math/rand as scanned (imports per file, SSA instructions per function); go/ssa (x/tools v0.29.0) faithfully represents the compiled code",
		"function values: a call through a function value is allowed only when the value is a parameter handed over by the caller or a closure created in the same activation; module closures are analysed as part of their creator's activation",
	)
	return &checkResult{
		obls:    obls,
		trusted: trusted,
		assumptions: []string{
			"A-MEM (Go memory model)", "A-RTREE/A-GJSON/A-PRETTY/A-SJSON/stdlib assumed frames (external code is not analysed)",
			"CHA restricted to module types", "no reflect/unsafe/cgo (scanned)",
			"exempt constructors/builders may write through their parameters; every module call site must pass memory the caller owns",
		},
		explanation: "Modular frame analysis over go/ssa of the current working tree (build tag verif). Every store-like instruction and every call in every module function " +
			"(roots = all non-constructor methods of all named types + exported geo functions, and everything else in the module, constructors included) is classified. " +
			"A write is allowed iff its target derives from (a) an allocation of the same activation, (b) a captured local of the enclosing activation, " +
			"(c) a parameter for which every module call site passes memory its caller owns (demand summaries, propagated to a fixpoint; never allowed for exported non-constructor functions or functions used as values), " +
			"(d) the fresh result of a callee. Origins are tracked through a flow-insensitive, field-insensitive points-to abstraction local to the activation tree with per-function summaries " +
			"(result origins, stores into parameters, write demands). This proves an empty frame w.r.t. pre-existing memory for every query/serialisation method; it does not execute anything concurrently.",
		extras: map[string]interface{}{
			"functions_analysed":       nfuncs,
			"functions_root_reachable": nReach,
			"roots":                    len(roots),
			"root_list":                roots,
			"exempt":                   exempt,
			"exempt_rule":              "name starts with " + strings.Join(exemptPrefixes, "/") + " or is in the builder set (baseSeries.buildIndex, clearIndex, setCompressed, collection.parseInitRectIndex, qNode.insert, rTree.Insert/insert, rRect.insert/expand/recalc/splitLargestAxisEdgeSnap, fit, init)",
			"address_taken_functions":  append([]string{}, addrTaken...),
			"caller_fresh_parameters":  demands,
			"external_callees_used":    externs,
			"fixpoint_iterations":      f.iterations,
		},
	}
}

func oblDigest(obls []*Obligation) string {
	var lines []string
	for _, ob := range obls {
		lines = append(lines, fmt.Sprintf("%s|%v|%s", ob.Name, ob.OK, ob.Rule))
	}
	sort.Strings(lines)
	return strings.Join(lines, "\n")
}
