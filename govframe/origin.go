package main

import (
	"go/types"
	"math/bits"
)

// ---- abstract origins -------------------------------------------------------
//
// An Origin over-approximates where a pointer-like SSA value may point:
//   sites  : abstract objects allocated inside the current activation tree
//            (Alloc, MakeSlice, MakeMap, append results, []byte(string), boxed
//            values, closures, memory allocated by a callee and returned)
//   pdir   : parameter i of the top-level function itself (the value the caller
//            passed: pointer / slice / map / func / interface)
//   pdeep  : something loaded through parameter i (reachable from it)
//   shared : anything else: a package-level variable, memory loaded from shared
//            memory, a parameter of a closure, an unmodelled instruction
//   capt   : the value was reached through a closure free variable

const maxParams = 30

type bitset []uint64

func (b bitset) has(i int) bool { return i/64 < len(b) && b[i/64]&(1<<(uint(i)%64)) != 0 }
func (b bitset) empty() bool {
	for _, x := range b {
		if x != 0 {
			return false
		}
	}
	return true
}
func (b bitset) with(i int) bitset {
	n := make(bitset, max(len(b), i/64+1))
	copy(n, b)
	n[i/64] |= 1 << (uint(i) % 64)
	return n
}
func (b bitset) union(c bitset) (bitset, bool) {
	changed := false
	for i, x := range c {
		if i < len(b) {
			if x&^b[i] != 0 {
				changed = true
			}
		} else if x != 0 {
			changed = true
		}
	}
	if !changed {
		return b, false
	}
	n := make(bitset, max(len(b), len(c)))
	copy(n, b)
	for i, x := range c {
		n[i] |= x
	}
	return n, true
}
func (b bitset) each(f func(i int)) {
	for w, x := range b {
		for x != 0 {
			t := bits.TrailingZeros64(x)
			f(w*64 + t)
			x &^= 1 << uint(t)
		}
	}
}

type Origin struct {
	sites  bitset
	pdir   uint32
	pdeep  uint32
	shared bool
	capt   bool
	why    string
}

func (o Origin) isZero() bool {
	return o.sites.empty() && o.pdir == 0 && o.pdeep == 0 && !o.shared
}

// join returns o ∪ p and whether it differs from o.
func (o Origin) join(p Origin) (Origin, bool) {
	ch := false
	if s, c := o.sites.union(p.sites); c {
		o.sites = s
		ch = true
	}
	if p.pdir&^o.pdir != 0 {
		o.pdir |= p.pdir
		ch = true
	}
	if p.pdeep&^o.pdeep != 0 {
		o.pdeep |= p.pdeep
		ch = true
	}
	if p.shared && !o.shared {
		o.shared = true
		o.why = p.why
		ch = true
	}
	if p.capt && !o.capt {
		o.capt = true
		ch = true
	}
	return o, ch
}

func sharedOrigin(why string) Origin { return Origin{shared: true, why: why} }

// PO is a "portable" origin used in function summaries: sites collapsed to one bit.
type PO struct {
	fresh  bool
	pdir   uint32
	pdeep  uint32
	shared bool
	why    string
}

func (p PO) isZero() bool { return !p.fresh && p.pdir == 0 && p.pdeep == 0 && !p.shared }
func (p PO) join(q PO) (PO, bool) {
	ch := false
	if q.fresh && !p.fresh {
		p.fresh, ch = true, true
	}
	if q.pdir&^p.pdir != 0 {
		p.pdir |= q.pdir
		ch = true
	}
	if q.pdeep&^p.pdeep != 0 {
		p.pdeep |= q.pdeep
		ch = true
	}
	if q.shared && !p.shared {
		p.shared, p.why, ch = true, q.why, true
	}
	return p, ch
}

// ---- type predicate ---------------------------------------------------------

// pointerLike: can a value of type t carry a reference to mutable memory?
// strings are immutable and therefore not pointer-like.
func pointerLike(t types.Type) bool {
	return pointerLikeD(t, 0)
}

func pointerLikeD(t types.Type, depth int) bool {
	if t == nil {
		return false
	}
	if depth > 12 {
		return true
	}
	switch u := t.Underlying().(type) {
	case *types.Basic:
		return u.Kind() == types.UnsafePointer
	case *types.Pointer, *types.Slice, *types.Map, *types.Chan, *types.Signature, *types.Interface:
		return true
	case *types.Struct:
		for i := 0; i < u.NumFields(); i++ {
			if pointerLikeD(u.Field(i).Type(), depth+1) {
				return true
			}
		}
		return false
	case *types.Array:
		return pointerLikeD(u.Elem(), depth+1)
	case *types.Tuple:
		for i := 0; i < u.Len(); i++ {
			if pointerLikeD(u.At(i).Type(), depth+1) {
				return true
			}
		}
		return false
	}
	return true // type parameters etc.: fail closed
}

// directParam: parameter kinds whose own value is "what the caller handed over".
// Struct / array parameters containing references are copies of possibly shared
// objects and are treated as deep from the start.
func directParam(t types.Type) bool {
	switch t.Underlying().(type) {
	case *types.Pointer, *types.Slice, *types.Map, *types.Chan, *types.Signature, *types.Interface:
		return true
	}
	return false
}
