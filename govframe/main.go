// govframe: a modular frame/effect checker over go/ssa for github.com/tidwall/geojson.
//
//	govframe check C16|C17 [--repo /repo] [--verif /verif] [--tier quick|thorough]
//	govframe selftest [--repo /repo] [--verif /verif]
package main

import (
	"bufio"
	"encoding/json"
	"fmt"
	"os"
	"path/filepath"
	"regexp"
	"sort"
	"strconv"
	"strings"
	"time"
)

type options struct {
	repo, verif, tier string
	list              bool
}

func parseOpts(args []string) (options, []string, error) {
	o := options{repo: "/repo", verif: "/verif", tier: "quick"}
	var rest []string
	for i := 0; i < len(args); i++ {
		a := args[i]
		val := func() (string, error) {
			if j := strings.Index(a, "="); j >= 0 {
				return a[j+1:], nil
			}
			if i+1 >= len(args) {
				return "", fmt.Errorf("flag %s needs a value", a)
			}
			i++
			return args[i], nil
		}
		var err error
		switch {
		case a == "--repo" || strings.HasPrefix(a, "--repo="):
			o.repo, err = val()
		case a == "--verif" || strings.HasPrefix(a, "--verif="):
			o.verif, err = val()
		case a == "--tier" || strings.HasPrefix(a, "--tier="):
			o.tier, err = val()
		case a == "--list":
			o.list = true
		default:
			rest = append(rest, a)
		}
		if err != nil {
			return o, nil, err
		}
	}
	if o.tier != "quick" && o.tier != "thorough" {
		return o, nil, fmt.Errorf("--tier must be quick or thorough")
	}
	return o, rest, nil
}

func usage() {
	fmt.Fprintln(os.Stderr, "usage: govframe check C16|C17 [--repo /repo] [--verif /verif] [--tier quick|thorough]\n       govframe selftest [--repo /repo] [--verif /verif]")
	os.Exit(2)
}

func main() {
	if len(os.Args) < 2 {
		usage()
	}
	opts, rest, err := parseOpts(os.Args[2:])
	if err != nil {
		fmt.Fprintln(os.Stderr, "govframe:", err)
		os.Exit(2)
	}
	switch os.Args[1] {
	case "check":
		if len(rest) != 1 || (rest[0] != "C16" && rest[0] != "C17") {
			usage()
		}
		os.Exit(runCheck(rest[0], opts))
	case "selftest":
		os.Exit(runSelftest(opts))
	default:
		usage()
	}
}

// checkResult is what a property check hands to the common reporting code.
type checkResult struct {
	obls        []*Obligation
	extras      map[string]interface{}
	trusted     []string
	assumptions []string
	explanation string
}

func runCheck(prop string, opts options) int {
	start := time.Now()
	w, err := loadWorld(opts.repo)
	if err != nil {
		// fail closed: a tree that cannot be loaded proves nothing
		fmt.Fprintln(os.Stderr, "govframe: cannot load the repository:", err)
		res := &checkResult{
			obls: []*Obligation{{Name: "load#frame.load1", Prop: prop, Func: "(load)", Kind: "load", Instr: "packages.Load ./...",
				OK: false, Reason: "the working tree could not be loaded/type-checked: " + err.Error()}},
			extras:      map[string]interface{}{},
			explanation: "the repository could not be loaded",
		}
		return report(prop, opts, res, start)
	}
	var res *checkResult
	switch prop {
	case "C16":
		res = checkC16(w, opts)
	case "C17":
		res = checkC17(w, opts)
	}
	return report(prop, opts, res, start)
}

var unsafeName = regexp.MustCompile(`[^A-Za-z0-9_.-]+`)

type knownFinding struct{ text string }

func readKnown(verif, prop string) map[string]knownFinding {
	out := map[string]knownFinding{}
	f, err := os.Open(filepath.Join(verif, "KNOWN_FINDINGS.txt"))
	if err != nil {
		return out
	}
	defer f.Close()
	sc := bufio.NewScanner(f)
	sc.Buffer(make([]byte, 1<<20), 1<<20)
	re := regexp.MustCompile(`^known:\s+property=(\S+)\s+obligation=(\S+)\s*(.*)$`)
	for sc.Scan() {
		line := strings.TrimSpace(sc.Text())
		m := re.FindStringSubmatch(line)
		if m == nil || m[1] != prop {
			continue
		}
		out[m[2]] = knownFinding{text: m[3]}
	}
	return out
}

func report(prop string, opts options, res *checkResult, start time.Time) int {
	known := readKnown(opts.verif, prop)
	if opts.list {
		for _, ob := range res.obls {
			st := "ok  "
			if !ob.OK {
				st = "FAIL"
			}
			fmt.Printf("%s %-60s %-22s %-28s %s :: %s\n", st, ob.Name, ob.Rule, ob.Pos, ob.Instr, ob.Reason)
		}
	}
	replayDir := filepath.Join(opts.verif, "replays", prop)
	os.RemoveAll(replayDir)
	violations := 0
	knownHits := 0
	discharged := 0
	byKind := map[string]int{}
	byRule := map[string]int{}
	allowedByRule := map[string]int{"a": 0, "b": 0, "c": 0, "d": 0}
	var failed []*Obligation
	for _, ob := range res.obls {
		byKind[ob.Kind]++
		if ob.OK {
			discharged++
			byRule[ob.Rule]++
			r := ob.Rule
			for _, pre := range []string{"append/", "call:extern-", "call:"} {
				r = strings.TrimPrefix(r, pre)
			}
			if _, ok := allowedByRule[r]; ok {
				allowedByRule[r]++
			}
			continue
		}
		failed = append(failed, ob)
	}
	for i, ob := range failed {
		if k, ok := known[ob.Name]; ok {
			knownHits++
			fmt.Printf("KNOWN-FINDING: property=%s %s %s\n", prop, ob.Name, k.text)
			continue
		}
		violations++
		os.MkdirAll(replayDir, 0o755)
		path := filepath.Join(replayDir, fmt.Sprintf("%03d_%s.json", i+1, unsafeName.ReplaceAllString(ob.Name, "_")))
		data, _ := json.MarshalIndent(map[string]interface{}{
			"property":    prop,
			"obligation":  ob.Name,
			"function":    ob.Func,
			"kind":        ob.Kind,
			"instruction": ob.Instr,
			"position":    ob.Pos,
			"reason":      ob.Reason,
			"note":        "static frame proof: there is no input to replay; re-run `govframe check " + prop + "` on the tree to reproduce",
		}, "", " ")
		os.WriteFile(path, append(data, '\n'), 0o644)
		fmt.Printf("VIOLATION property=%s replay=%s no-failing-input-found\n", prop, path)
		fmt.Printf("  %s at %s: %s\n    %s\n", ob.Name, ob.Pos, ob.Instr, ob.Reason)
	}

	seed := 0
	if s := os.Getenv("VERIF_SEED"); s != "" {
		if n, err := strconv.Atoi(s); err == nil {
			seed = n
		}
	}
	self, _ := os.Executable()
	if self == "" {
		self = "govframe"
	}
	cov := map[string]interface{}{
		"obligations":    len(res.obls),
		"discharged":     discharged,
		"checker_cmd":    fmt.Sprintf("%s check %s --repo %s --verif %s --tier %s", self, prop, opts.repo, opts.verif, opts.tier),
		"trusted_base":   res.trusted,
		"samples":        pickSamples(res.obls, failed),
		"by_kind":        byKind,
		"by_rule":        byRule,
		"known_findings": knownHits,
		"explanation":    res.explanation,
	}
	if prop == "C16" {
		cov["allowed_by_rule"] = allowedByRule
	}
	for k, v := range res.extras {
		cov[k] = v
	}
	if cov["trusted_base"] == nil {
		cov["trusted_base"] = []string{}
	}
	ev := map[string]interface{}{
		"property_id": prop,
		"tier":        opts.tier,
		"seed":        seed,
		"level":       "proof",
		"coverage":    cov,
		"assumptions": res.assumptions,
		"wall_s":      float64(int(time.Since(start).Seconds()*1000)) / 1000,
		"violations":  violations,
	}
	if res.assumptions == nil {
		ev["assumptions"] = []string{}
	}
	os.MkdirAll(filepath.Join(opts.verif, "evidence"), 0o755)
	data, _ := json.MarshalIndent(ev, "", " ")
	if err := os.WriteFile(filepath.Join(opts.verif, "evidence", prop+".json"), append(data, '\n'), 0o644); err != nil {
		fmt.Fprintln(os.Stderr, "govframe: cannot write evidence:", err)
	}
	fmt.Printf("govframe %s: obligations=%d discharged=%d violations=%d known-findings=%d wall=%.2fs\n",
		prop, len(res.obls), discharged, violations, knownHits, time.Since(start).Seconds())
	if violations > 0 {
		return 1
	}
	return 0
}

// pickSamples: failures first, then one obligation per rule, deterministic, at most 10.
func pickSamples(all, failed []*Obligation) []*Obligation {
	var out []*Obligation
	for _, ob := range failed {
		if len(out) < 4 {
			out = append(out, ob)
		}
	}
	seen := map[string]bool{}
	var rules []string
	first := map[string]*Obligation{}
	for _, ob := range all {
		if !ob.OK {
			continue
		}
		key := ob.Kind + "/" + ob.Rule
		if !seen[key] {
			seen[key] = true
			rules = append(rules, key)
			first[key] = ob
		}
	}
	sort.Strings(rules)
	// prefer the interesting rules
	pri := func(k string) int {
		switch {
		case strings.HasSuffix(k, "/b"):
			return 0
		case strings.HasSuffix(k, "/c"), strings.HasSuffix(k, "call:c"):
			return 1
		case strings.HasSuffix(k, "/d"):
			return 2
		case strings.Contains(k, "extern"):
			return 3
		case strings.HasSuffix(k, "/a"):
			return 4
		}
		return 5
	}
	sort.SliceStable(rules, func(i, j int) bool { return pri(rules[i]) < pri(rules[j]) })
	for _, k := range rules {
		if len(out) >= 10 {
			break
		}
		out = append(out, first[k])
	}
	return out
}
