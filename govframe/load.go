package main

import (
	"fmt"
	"go/token"
	"go/types"
	"os"
	"path/filepath"
	"sort"
	"strings"

	"golang.org/x/tools/go/packages"
	"golang.org/x/tools/go/ssa"
	"golang.org/x/tools/go/ssa/ssautil"
)

// goEnv is the environment every go invocation of this tool uses (no network).
func goEnv() []string {
	return append(os.Environ(),
		"GOFLAGS=-mod=mod", "GOPROXY=off", "GOSUMDB=off", "GOTOOLCHAIN=local")
}

// World is the loaded working tree of the repository under analysis.
type World struct {
	repo    string
	fset    *token.FileSet
	pkgs    []*packages.Package // the module packages, sorted by path
	prog    *ssa.Program
	modPath string
	isMod   map[*types.Package]bool

	funcs     []*ssa.Function          // every module function with a body (top level, no closures), sorted by display name
	display   map[*ssa.Function]string // display name pkg.Recv.Func
	exempt    map[*ssa.Function]bool
	roots     map[*ssa.Function]bool
	addrTaken map[*ssa.Function]bool
	namedTs   []*types.Named // all named (non-alias) types declared in module packages
	chaCache  map[string][]*ssa.Function
}

func loadWorld(repo string) (*World, error) {
	abs, err := filepath.Abs(repo)
	if err != nil {
		return nil, err
	}
	fset := token.NewFileSet()
	cfg := &packages.Config{
		Mode:       packages.LoadAllSyntax | packages.NeedModule,
		Dir:        abs,
		Fset:       fset,
		Env:        goEnv(),
		BuildFlags: []string{"-tags=verif"},
		Tests:      false,
	}
	pkgs, err := packages.Load(cfg, "./...")
	if err != nil {
		return nil, fmt.Errorf("packages.Load: %v", err)
	}
	if len(pkgs) == 0 {
		return nil, fmt.Errorf("no packages found under %s", abs)
	}
	var errs []string
	packages.Visit(pkgs, nil, func(p *packages.Package) {
		for _, e := range p.Errors {
			errs = append(errs, e.Error())
		}
	})
	if len(errs) > 0 {
		return nil, fmt.Errorf("the working tree does not type-check: %s", strings.Join(errs, "; "))
	}
	sort.Slice(pkgs, func(i, j int) bool { return pkgs[i].PkgPath < pkgs[j].PkgPath })
	prog, _ := ssautil.AllPackages(pkgs, 0)
	prog.Build()

	w := &World{
		repo: abs, fset: fset, pkgs: pkgs, prog: prog,
		isMod:     map[*types.Package]bool{},
		display:   map[*ssa.Function]string{},
		exempt:    map[*ssa.Function]bool{},
		roots:     map[*ssa.Function]bool{},
		addrTaken: map[*ssa.Function]bool{},
		chaCache:  map[string][]*ssa.Function{},
	}
	for _, p := range pkgs {
		w.isMod[p.Types] = true
		if p.Module != nil && w.modPath == "" {
			w.modPath = p.Module.Path
		}
	}
	w.collect()
	return w, nil
}

// shortPkg gives the short package name used in obligation names.
func shortPkg(p *types.Package) string {
	if p == nil {
		return "?"
	}
	return p.Name()
}

func recvNamed(t types.Type) *types.Named {
	if p, ok := t.(*types.Pointer); ok {
		t = p.Elem()
	}
	n, _ := t.(*types.Named)
	return n
}

// exemptPrefixes / exemptSet: the constructor / builder functions (task statement).
var exemptPrefixes = []string{"New", "Parse", "parse", "make", "new"}
var exemptSet = map[string]bool{
	"baseSeries.buildIndex": true, "baseSeries.clearIndex": true, "baseSeries.setCompressed": true,
	"collection.parseInitRectIndex": true, "qNode.insert": true, "rTree.Insert": true, "rTree.insert": true,
	"rRect.insert": true, "rRect.expand": true, "rRect.recalc": true, "rRect.splitLargestAxisEdgeSnap": true,
	"fit": true, "init": true,
}

func isExemptName(recv, name string) bool {
	for _, p := range exemptPrefixes {
		if strings.HasPrefix(name, p) {
			return true
		}
	}
	if recv != "" {
		return exemptSet[recv+"."+name]
	}
	return exemptSet[name]
}

func (w *World) collect() {
	seen := map[*ssa.Function]bool{}
	add := func(fn *ssa.Function, recv string) {
		if fn == nil || seen[fn] || len(fn.Blocks) == 0 {
			return
		}
		seen[fn] = true
		name := fn.Name()
		d := shortPkg(fn.Pkg.Pkg) + "."
		if recv != "" {
			d += recv + "."
		}
		d += name
		w.display[fn] = d
		w.funcs = append(w.funcs, fn)
		base := name
		if i := strings.Index(base, "#"); i >= 0 { // init#1
			base = base[:i]
		}
		if isExemptName(recv, base) {
			w.exempt[fn] = true
		}
	}
	for _, p := range w.pkgs {
		sp := w.prog.Package(p.Types)
		scope := p.Types.Scope()
		names := scope.Names() // sorted
		for _, nm := range names {
			switch obj := scope.Lookup(nm).(type) {
			case *types.Func:
				fn := w.prog.FuncValue(obj)
				add(fn, "")
				// ROOT: exported package-level functions of package geo
				if fn != nil && p.Types.Name() == "geo" && obj.Exported() && !w.exempt[fn] {
					w.roots[fn] = true
				}
			case *types.TypeName:
				if obj.IsAlias() {
					continue
				}
				named, ok := obj.Type().(*types.Named)
				if !ok {
					continue
				}
				w.namedTs = append(w.namedTs, named)
				for i := 0; i < named.NumMethods(); i++ {
					m := named.Method(i)
					fn := w.prog.FuncValue(m)
					add(fn, obj.Name())
					// ROOT: every declared method (exported or not) that is not a constructor/mutator
					if fn != nil && len(fn.Blocks) > 0 && !w.exempt[fn] {
						w.roots[fn] = true
					}
				}
			}
		}
		// declared init functions (init#1 ...) are members of the ssa package only
		var mnames []string
		for nm := range sp.Members {
			mnames = append(mnames, nm)
		}
		sort.Strings(mnames)
		for _, nm := range mnames {
			if fn, ok := sp.Members[nm].(*ssa.Function); ok && fn.Synthetic == "" {
				add(fn, "")
			}
		}
	}
	sort.Slice(w.funcs, func(i, j int) bool { return w.display[w.funcs[i]] < w.display[w.funcs[j]] })
	// closures get display names derived from their parent
	var nameAnon func(fn *ssa.Function)
	nameAnon = func(fn *ssa.Function) {
		for _, an := range fn.AnonFuncs {
			suffix := strings.TrimPrefix(an.Name(), fn.Name())
			w.display[an] = w.display[fn] + suffix
			nameAnon(an)
		}
	}
	for _, fn := range w.funcs {
		nameAnon(fn)
	}
	// address-taken functions: a module function used as a value anywhere except in call position
	for _, fn := range w.funcs {
		w.scanAddrTaken(fn)
	}
}

func (w *World) scanAddrTaken(fn *ssa.Function) {
	for _, b := range fn.Blocks {
		for _, ins := range b.Instrs {
			var calleeSlot *ssa.Value
			if c, ok := ins.(ssa.CallInstruction); ok && !c.Common().IsInvoke() {
				calleeSlot = &c.Common().Value
			}
			for _, op := range ins.Operands(nil) {
				if op == nil || *op == nil {
					continue
				}
				f, ok := (*op).(*ssa.Function)
				if !ok {
					continue
				}
				if op == calleeSlot {
					continue // called, not taken as a value
				}
				if mc, isMC := ins.(*ssa.MakeClosure); isMC && op == &mc.Fn && f.Parent() != nil {
					continue // ordinary closure creation: analysed in the creator's activation
				}
				w.markAddrTaken(f)
			}
		}
	}
	for _, an := range fn.AnonFuncs {
		w.scanAddrTaken(an)
	}
}

func (w *World) markAddrTaken(f *ssa.Function) {
	w.addrTaken[f] = true
	if f.Synthetic != "" {
		// bound-method closures / thunks: the underlying method is address-taken too
		if obj, ok := f.Object().(*types.Func); ok {
			if g := w.prog.FuncValue(obj); g != nil {
				w.addrTaken[g] = true
			}
		}
	}
}

// isModuleFn reports whether fn is a function of the module with a body we analyse.
func (w *World) isModuleFn(fn *ssa.Function) bool {
	if fn == nil || fn.Pkg == nil || len(fn.Blocks) == 0 {
		return false
	}
	return w.isMod[fn.Pkg.Pkg]
}

// cha resolves an interface method call to the declared methods of module types
// (class-hierarchy analysis restricted to the module's named types).
func (w *World) cha(iface *types.Interface, m *types.Func) []*ssa.Function {
	key := types.TypeString(iface, nil) + "|" + m.Name()
	if m.Pkg() != nil {
		key += "|" + m.Pkg().Path()
	}
	if r, ok := w.chaCache[key]; ok {
		return r
	}
	var out []*ssa.Function
	seen := map[*ssa.Function]bool{}
	for _, named := range w.namedTs {
		if _, isIface := named.Underlying().(*types.Interface); isIface {
			continue
		}
		for _, t := range []types.Type{named, types.NewPointer(named)} {
			if !types.Implements(t, iface) {
				continue
			}
			sel := types.NewMethodSet(t).Lookup(m.Pkg(), m.Name())
			if sel == nil {
				continue
			}
			fobj, ok := sel.Obj().(*types.Func)
			if !ok {
				continue
			}
			fn := w.prog.FuncValue(fobj)
			if fn != nil && !seen[fn] {
				seen[fn] = true
				out = append(out, fn)
			}
		}
	}
	sort.Slice(out, func(i, j int) bool { return w.display[out[i]] < w.display[out[j]] })
	w.chaCache[key] = out
	return out
}

func (w *World) relPos(p token.Pos) string {
	if !p.IsValid() {
		return ""
	}
	pos := w.fset.Position(p)
	rel, err := filepath.Rel(w.repo, pos.Filename)
	if err != nil {
		rel = pos.Filename
	}
	return fmt.Sprintf("%s:%d", rel, pos.Line)
}

func exported(name string) bool { return token.IsExported(name) }
