package main

import (
	"go/types"
	"strings"

	"golang.org/x/tools/go/ssa"
)

// extFrame is the ASSUMED frame of a callee outside the module (trusted base).
type extFrame struct {
	writes     []int  // argument indices (receiver = 0 for methods) the callee writes into: must be owned by the caller
	deep       bool   // the write may reach memory reachable from the argument (e.g. tree nodes)
	result     string // "fresh" | "argN" | "alias" (fresh or aliasing anything reachable from any argument) | "" (no reference result)
	appendLike bool   // result aliases arg0 or is fresh; writes only past len(arg0)
	note       string
}

func externName(fn *ssa.Function) string {
	if fn.Signature.Recv() != nil {
		return "(" + types.TypeString(fn.Signature.Recv().Type(), nil) + ")." + fn.Name()
	}
	if fn.Pkg != nil {
		return fn.Pkg.Pkg.Path() + "." + fn.Name()
	}
	return fn.String()
}

func externPkg(fn *ssa.Function) string {
	if fn.Pkg != nil {
		return fn.Pkg.Pkg.Path()
	}
	if fn.Signature.Recv() != nil {
		if n := recvNamed(fn.Signature.Recv().Type()); n != nil && n.Obj().Pkg() != nil {
			return n.Obj().Pkg().Path()
		}
	}
	if o := fn.Object(); o != nil && o.Pkg() != nil {
		return o.Pkg().Path()
	}
	return ""
}

// trustedExternFrames is the list printed in the evidence (trusted_base).
var trustedExternFrames = []string{
	"A-RTREE frame: github.com/tidwall/rtree (*RTree).Search/Len/Bounds/Scan are read-only (the iterator closure is called synchronously and not retained); (*RTree).Insert writes only memory reachable from the receiver tree",
	"A-GJSON frame: every function and method of github.com/tidwall/gjson is pure (reads its arguments, returns fresh values, calls iterator closures synchronously)",
	"A-PRETTY frame: pretty.Ugly is pure; pretty.UglyInPlace(b) writes only into b and returns a reslice of b",
	"A-SJSON frame: every function of github.com/tidwall/sjson returns fresh values and writes nothing else",
	"stdlib frames: strconv.* pure (Append* are append-like on arg 0); math.*, math/bits.*, unicode.*, unicode/utf8.* (non-Encode/Append), errors.New, fmt.Sprint/Sprintf/Sprintln/Errorf, strings.* functions are pure and return fresh values; bytes.* functions are pure (a result may alias an argument); strings.Builder / bytes.Buffer methods write only their receiver; sort.* writes only into its first argument; encoding/binary ByteOrder.PutUintNN(b, v) writes only into b, UintNN(b) is pure",
}

func externFrame(fn *ssa.Function) (extFrame, bool) {
	pkg := externPkg(fn)
	name := fn.Name()
	isMethod := fn.Signature.Recv() != nil
	recv := ""
	if isMethod {
		if n := recvNamed(fn.Signature.Recv().Type()); n != nil {
			recv = n.Obj().Name()
		}
	}
	switch pkg {
	case "github.com/tidwall/rtree":
		if recv == "RTree" {
			switch name {
			case "Search", "Len", "Bounds", "Scan":
				return extFrame{note: "read-only on the tree; iterator called synchronously"}, true
			case "Insert":
				return extFrame{writes: []int{0}, deep: true, note: "writes only the receiver tree (receiver must be owned by the caller)"}, true
			}
		}
		return extFrame{}, false
	case "github.com/tidwall/gjson":
		return extFrame{result: "fresh", note: "pure"}, true
	case "github.com/tidwall/pretty":
		switch name {
		case "Ugly":
			return extFrame{result: "fresh", note: "pure"}, true
		case "UglyInPlace":
			return extFrame{writes: []int{0}, result: "arg0", note: "writes into its argument (must be owned by the caller); returns a reslice of it"}, true
		}
		return extFrame{}, false
	case "github.com/tidwall/sjson":
		return extFrame{result: "fresh", note: "returns fresh values"}, true
	case "strconv":
		if strings.HasPrefix(name, "Append") {
			return extFrame{result: "arg0", appendLike: true, note: "append-like on its first argument"}, true
		}
		return extFrame{result: "fresh", note: "pure"}, true
	case "math", "math/bits", "unicode":
		return extFrame{note: "pure"}, true
	case "unicode/utf8":
		if strings.HasPrefix(name, "Append") {
			return extFrame{result: "arg0", appendLike: true, note: "append-like on its first argument"}, true
		}
		if strings.HasPrefix(name, "Encode") {
			return extFrame{writes: []int{0}, note: "writes into its first argument"}, true
		}
		return extFrame{note: "pure"}, true
	case "errors":
		if name == "New" {
			return extFrame{result: "fresh", note: "returns a fresh error"}, true
		}
		return extFrame{}, false
	case "fmt":
		switch name {
		case "Sprint", "Sprintf", "Sprintln", "Errorf":
			return extFrame{result: "fresh", note: "pure formatting into a fresh value"}, true
		}
		return extFrame{}, false
	case "strings", "bytes":
		if isMethod {
			if recv == "Builder" || recv == "Buffer" {
				return extFrame{writes: []int{0}, deep: true, result: "alias", note: "writes only its receiver; a result may alias the receiver's buffer"}, true
			}
			return extFrame{}, false
		}
		if pkg == "bytes" {
			return extFrame{result: "alias", note: "pure; a []byte result may alias an argument"}, true
		}
		return extFrame{result: "fresh", note: "pure"}, true
	case "sort":
		if isMethod {
			return extFrame{}, false
		}
		switch name {
		case "Search", "SearchInts", "SearchFloat64s", "SearchStrings", "IsSorted", "SliceIsSorted", "IntsAreSorted", "Float64sAreSorted", "StringsAreSorted":
			return extFrame{note: "pure"}, true
		}
		return extFrame{writes: []int{0}, note: "reorders its first argument in place (must be owned by the caller)"}, true
	case "encoding/binary":
		if isMethod {
			switch {
			case strings.HasPrefix(name, "Put"):
				return extFrame{writes: []int{1}, note: "writes into b (must be owned by the caller)"}, true
			case strings.HasPrefix(name, "Uint"), name == "String":
				return extFrame{note: "pure"}, true
			}
		}
		return extFrame{}, false
	}
	return extFrame{}, false
}
