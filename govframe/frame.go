package main

import (
	"fmt"
	"go/token"
	"go/types"
	"sort"
	"strings"

	"golang.org/x/tools/go/ssa"
)

// Obligation is one classified site.
type Obligation struct {
	Name   string `json:"obligation"`
	Prop   string `json:"property"`
	Func   string `json:"function"`
	Kind   string `json:"kind"`
	Instr  string `json:"instruction"`
	Pos    string `json:"position"`
	OK     bool   `json:"discharged"`
	Rule   string `json:"rule"`
	Reason string `json:"reason"`
	Reach  string `json:"reach,omitempty"`
}

// SiteRec identifies an effect site across fixpoint iterations.
type SiteRec struct {
	fn   *ssa.Function
	top  *ssa.Function
	ins  ssa.Instruction
	kind string
	ord  int
}

type retSum struct {
	direct  PO // where the result itself may point
	content PO // what memory allocated by the callee and reachable from the result may reference
}

// Summary of a top-level module function.
type Summary struct {
	dem     [2][maxParams]map[*SiteRec]bool // [0] direct / [1] deep write demand on parameter i, with the sites causing it
	stores  [maxParams]PO                   // pointer values the function stores into memory reachable from parameter i
	results []retSum
}

type Frame struct {
	w             *World
	sums          map[*ssa.Function]*Summary
	changed       bool
	final         bool
	obls          []*Obligation
	oblByRec      map[*SiteRec]*Obligation
	recs          map[ssa.Instruction]*SiteRec
	failedOrigins map[*SiteRec]string
	externUsed    map[string]string
	callSitesOf   map[*ssa.Function]int
	iterations    int
}

func newFrame(w *World) *Frame {
	f := &Frame{w: w, sums: map[*ssa.Function]*Summary{}, recs: map[ssa.Instruction]*SiteRec{},
		failedOrigins: map[*SiteRec]string{}, externUsed: map[string]string{}, oblByRec: map[*SiteRec]*Obligation{},
		callSitesOf: map[*ssa.Function]int{}}
	for _, fn := range w.funcs {
		f.sums[fn] = &Summary{results: make([]retSum, fn.Signature.Results().Len())}
	}
	return f
}

func (f *Frame) run(order []*ssa.Function) {
	for f.iterations = 1; f.iterations < 200; f.iterations++ {
		f.changed = false
		for _, fn := range order {
			a := newAct(f, fn)
			a.solve()
			a.check()
		}
		if !f.changed {
			break
		}
	}
	f.final = true
	for _, fn := range f.w.funcs {
		a := newAct(f, fn)
		a.solve()
		a.check()
	}
	// a store through a parameter is only allowed if every caller owns the memory (rule c):
	// when some caller does not, the originating store fails as well.
	for rec, why := range f.failedOrigins {
		if ob := f.oblByRec[rec]; ob != nil && ob.OK {
			ob.OK = false
			ob.Reason = why
		}
	}
}

// demandable: may parameter i of top carry a "caller must own this memory" demand?
func (f *Frame) demandable(top *ssa.Function) (bool, string) {
	if f.w.exempt[top] {
		return true, ""
	}
	if f.w.addrTaken[top] {
		return false, "is used as a function value (its callers are not known)"
	}
	if exported(top.Name()) {
		return false, "is callable from outside the module on shared objects (exported, not a constructor/builder)"
	}
	return true, ""
}

// ---- per-activation analysis ---------------------------------------------------

type siteInfo struct {
	ins  ssa.Instruction
	kind string // alloc, make, append, conv, box, closure, call
}

type act struct {
	f        *Frame
	w        *World
	top      *ssa.Function
	fns      []*ssa.Function
	val      map[ssa.Value]Origin
	sites    []siteInfo
	siteIdx  map[ssa.Instruction]int
	content  []map[string]*typedOrigin
	compat   map[[2]types.Type]bool
	fvBind   map[*ssa.FreeVar]ssa.Value
	callRes  map[ssa.Instruction][]Origin
	sum      *Summary
	paramIdx map[*ssa.Parameter]int
	changed  bool
}

func newAct(f *Frame, top *ssa.Function) *act {
	a := &act{f: f, w: f.w, top: top, val: map[ssa.Value]Origin{}, siteIdx: map[ssa.Instruction]int{},
		compat: map[[2]types.Type]bool{}, fvBind: map[*ssa.FreeVar]ssa.Value{}, callRes: map[ssa.Instruction][]Origin{}, sum: f.sums[top],
		paramIdx: map[*ssa.Parameter]int{}}
	var walk func(fn *ssa.Function)
	walk = func(fn *ssa.Function) {
		a.fns = append(a.fns, fn)
		for _, an := range fn.AnonFuncs {
			walk(an)
		}
	}
	walk(top)
	for i, p := range top.Params {
		a.paramIdx[p] = i
	}
	for _, fn := range a.fns {
		for _, b := range fn.Blocks {
			for _, ins := range b.Instrs {
				if mc, ok := ins.(*ssa.MakeClosure); ok {
					if cf, ok := mc.Fn.(*ssa.Function); ok {
						for i, bnd := range mc.Bindings {
							if i < len(cf.FreeVars) {
								a.fvBind[cf.FreeVars[i]] = bnd
							}
						}
					}
				}
			}
		}
	}
	return a
}

func (a *act) site(ins ssa.Instruction, kind string) int {
	if i, ok := a.siteIdx[ins]; ok {
		return i
	}
	i := len(a.sites)
	a.sites = append(a.sites, siteInfo{ins, kind})
	a.content = append(a.content, map[string]*typedOrigin{})
	a.siteIdx[ins] = i
	return i
}

func (a *act) siteOrigin(ins ssa.Instruction, kind string) Origin {
	return Origin{sites: bitset(nil).with(a.site(ins, kind))}
}

func (a *act) get(v ssa.Value) Origin {
	switch x := v.(type) {
	case *ssa.Parameter:
		if !pointerLike(x.Type()) {
			return Origin{}
		}
		if i, ok := a.paramIdx[x]; ok {
			if i >= maxParams {
				return sharedOrigin("too many parameters")
			}
			if directParam(x.Type()) {
				return Origin{pdir: 1 << uint(i)}
			}
			return Origin{pdeep: 1 << uint(i)}
		}
		return sharedOrigin(fmt.Sprintf("parameter %s of a closure (its callers are not known)", x.Name()))
	case *ssa.FreeVar:
		b := a.fvBind[x]
		if b == nil {
			return sharedOrigin("free variable with unknown binding")
		}
		o := a.get(b)
		o.capt = true
		return o
	case *ssa.Global:
		return sharedOrigin("package-level variable " + shortPkg(x.Pkg.Pkg) + "." + x.Name())
	case *ssa.Const, *ssa.Function, *ssa.Builtin:
		return Origin{}
	case nil:
		return Origin{}
	}
	return a.val[v]
}

func (a *act) set(v ssa.Value, o Origin) {
	if !pointerLike(v.Type()) {
		return
	}
	n, ch := a.val[v].join(o)
	if ch {
		a.val[v] = n
		a.changed = true
	}
}

// typedOrigin: what has been stored into an abstract object, keyed by the static type of the stored value
// (type-based field sensitivity; t == nil is a wildcard used for memory written by callees).
type typedOrigin struct {
	t types.Type
	o Origin
}

func identicalU(a, b types.Type) bool {
	return types.Identical(a, b) || types.Identical(a.Underlying(), b.Underlying())
}

func containsU(a, b types.Type, depth int) bool {
	if depth > 10 {
		return true
	}
	switch u := a.Underlying().(type) {
	case *types.Struct:
		for i := 0; i < u.NumFields(); i++ {
			ft := u.Field(i).Type()
			if identicalU(ft, b) || containsU(ft, b, depth+1) {
				return true
			}
		}
	case *types.Array:
		return identicalU(u.Elem(), b) || containsU(u.Elem(), b, depth+1)
	case *types.Tuple:
		for i := 0; i < u.Len(); i++ {
			if identicalU(u.At(i).Type(), b) || containsU(u.At(i).Type(), b, depth+1) {
				return true
			}
		}
	}
	return false
}

// typeCompat: can a load of type l observe (part of) a value stored with static type s?
// In the absence of unsafe (scanned) memory written as s is read as s, as an aggregate containing s,
// or as a component of s.
func (a *act) typeCompat(s, l types.Type) bool {
	if s == nil || l == nil {
		return true
	}
	k := [2]types.Type{s, l}
	if r, ok := a.compat[k]; ok {
		return r
	}
	r := identicalU(s, l) || containsU(s, l, 0) || containsU(l, s, 0)
	if !r {
		// opaque / type-parameter types: fail closed
		switch s.Underlying().(type) {
		case *types.Basic, *types.Pointer, *types.Slice, *types.Map, *types.Chan, *types.Signature, *types.Interface, *types.Struct, *types.Array, *types.Tuple:
		default:
			r = true
		}
		switch l.Underlying().(type) {
		case *types.Basic, *types.Pointer, *types.Slice, *types.Map, *types.Chan, *types.Signature, *types.Interface, *types.Struct, *types.Array, *types.Tuple:
		default:
			r = true
		}
	}
	a.compat[k] = r
	return r
}

func (a *act) siteContent(s int, t types.Type) Origin {
	var r Origin
	m := a.content[s]
	keys := make([]string, 0, len(m))
	for k := range m {
		keys = append(keys, k)
	}
	sort.Strings(keys)
	for _, k := range keys {
		e := m[k]
		if t == nil || a.typeCompat(e.t, t) {
			r, _ = r.join(e.o)
		}
	}
	return r
}

func (a *act) load(o Origin, t types.Type) Origin {
	if !pointerLike(t) {
		return Origin{}
	}
	var r Origin
	o.sites.each(func(s int) { r, _ = r.join(a.siteContent(s, t)) })
	r.pdeep |= o.pdir | o.pdeep
	if o.shared {
		r.shared = true
		if r.why == "" || !strings.HasPrefix(r.why, "loaded") {
			r.why = "loaded from shared memory (" + o.why + ")"
		}
	}
	r.capt = r.capt || o.capt
	return r
}

// reach: o plus everything reachable from the activation-local objects in o.
func (a *act) reach(o Origin) Origin {
	r := o
	for {
		ch := false
		var add Origin
		r.sites.each(func(s int) { add, _ = add.join(a.siteContent(s, nil)) })
		r, ch = r.join(add)
		if !ch {
			break
		}
	}
	return r
}

func (a *act) collapse(o Origin) PO {
	return PO{fresh: !o.sites.empty(), pdir: o.pdir, pdeep: o.pdeep, shared: o.shared, why: o.why}
}

func (a *act) addContent(addr Origin, val Origin, t types.Type) {
	if val.isZero() {
		return
	}
	val.capt = false
	key := "*"
	if t != nil {
		key = types.TypeString(t, nil)
	}
	addr.sites.each(func(s int) {
		e := a.content[s][key]
		if e == nil {
			e = &typedOrigin{t: t}
			a.content[s][key] = e
		}
		n, ch := e.o.join(val)
		if ch {
			e.o = n
			a.changed = true
		}
	})
	pb := addr.pdir | addr.pdeep
	if pb != 0 {
		po := a.collapse(a.reach(val))
		for i := 0; i < maxParams; i++ {
			if pb&(1<<uint(i)) != 0 {
				n, ch := a.sum.stores[i].join(po)
				if ch {
					a.sum.stores[i] = n
					a.f.changed = true
				}
			}
		}
	}
}

func callArgs(c *ssa.CallCommon) []ssa.Value {
	if c.IsInvoke() {
		return append([]ssa.Value{c.Value}, c.Args...)
	}
	return c.Args
}

func (a *act) subst(po PO, args []ssa.Value, site int) Origin {
	var r Origin
	if po.fresh {
		r.sites = r.sites.with(site)
	}
	for j := 0; j < len(args) && j < maxParams; j++ {
		if po.pdir&(1<<uint(j)) != 0 {
			r, _ = r.join(a.get(args[j]))
		}
		if po.pdeep&(1<<uint(j)) != 0 {
			d := a.reach(a.get(args[j]))
			d.pdeep |= d.pdir
			r, _ = r.join(d)
		}
	}
	if po.shared {
		r.shared = true
		if r.why == "" {
			r.why = po.why
		}
	}
	return r
}

func (a *act) solve() {
	for n := 0; n < 1000; n++ {
		a.changed = false
		for _, fn := range a.fns {
			for _, b := range fn.Blocks {
				for _, ins := range b.Instrs {
					a.step(fn, ins)
				}
			}
		}
		if !a.changed {
			return
		}
	}
	panic("local fixpoint did not converge in " + a.w.display[a.top])
}

func isString(t types.Type) bool {
	b, ok := t.Underlying().(*types.Basic)
	return ok && b.Info()&types.IsString != 0
}

func isUnsafePtr(t types.Type) bool {
	b, ok := t.Underlying().(*types.Basic)
	return ok && b.Kind() == types.UnsafePointer
}

func elemType(t types.Type) types.Type {
	switch u := t.Underlying().(type) {
	case *types.Slice:
		return u.Elem()
	case *types.Array:
		return u.Elem()
	case *types.Pointer:
		return elemType(u.Elem())
	case *types.Map:
		return u.Elem()
	}
	return nil
}

func (a *act) step(fn *ssa.Function, ins ssa.Instruction) {
	switch x := ins.(type) {
	case *ssa.Alloc:
		a.set(x, a.siteOrigin(x, "alloc"))
	case *ssa.MakeSlice:
		a.set(x, a.siteOrigin(x, "make"))
	case *ssa.MakeMap:
		a.set(x, a.siteOrigin(x, "make"))
	case *ssa.MakeChan:
		a.set(x, a.siteOrigin(x, "make"))
	case *ssa.MakeClosure:
		so := a.siteOrigin(x, "closure")
		for _, b := range x.Bindings {
			a.addContent(so, a.get(b), b.Type())
		}
		a.set(x, so)
	case *ssa.MakeInterface:
		if pointerLike(x.X.Type()) {
			a.set(x, a.get(x.X))
		} else {
			a.set(x, a.siteOrigin(x, "box"))
		}
	case *ssa.FieldAddr:
		a.set(x, a.get(x.X))
	case *ssa.IndexAddr:
		a.set(x, a.get(x.X))
	case *ssa.Field:
		a.set(x, a.get(x.X))
	case *ssa.Index:
		a.set(x, a.get(x.X))
	case *ssa.Slice:
		if !isString(x.X.Type()) {
			a.set(x, a.get(x.X))
		}
	case *ssa.Phi:
		for _, e := range x.Edges {
			a.set(x, a.get(e))
		}
	case *ssa.ChangeType:
		a.set(x, a.get(x.X))
	case *ssa.ChangeInterface:
		a.set(x, a.get(x.X))
	case *ssa.SliceToArrayPointer:
		a.set(x, a.get(x.X))
	case *ssa.Convert:
		switch {
		case isUnsafePtr(x.Type()) || isUnsafePtr(x.X.Type()):
			a.set(x, sharedOrigin("unsafe.Pointer conversion"))
		case isString(x.X.Type()):
			if _, ok := x.Type().Underlying().(*types.Slice); ok {
				a.set(x, a.siteOrigin(x, "conv")) // []byte(string) / []rune(string): fresh copy
			}
		default:
			a.set(x, a.get(x.X))
		}
	case *ssa.TypeAssert:
		a.set(x, a.get(x.X))
	case *ssa.Extract:
		if ci, ok := x.Tuple.(ssa.Instruction); ok {
			if cr, ok := a.callRes[ci]; ok {
				if x.Index < len(cr) {
					a.set(x, cr[x.Index])
				}
				return
			}
		}
		a.set(x, a.get(x.Tuple))
	case *ssa.UnOp:
		switch x.Op {
		case token.MUL:
			if sv := forwardedStore(x); sv != nil {
				// the value stored to the same address earlier in this block, with no possible write in between
				o := a.get(sv)
				if a.get(x.X).capt {
					o.capt = true
				}
				a.set(x, o)
			} else {
				a.set(x, a.load(a.get(x.X), x.Type()))
			}
		case token.ARROW:
			a.set(x, sharedOrigin("value received from a channel"))
		}
	case *ssa.Lookup:
		if !isString(x.X.Type()) {
			a.set(x, a.load(a.get(x.X), x.Type()))
		}
	case *ssa.Range:
		a.set(x, a.get(x.X))
	case *ssa.Next:
		if !x.IsString {
			a.set(x, a.load(a.get(x.Iter), x.Type()))
		}
	case *ssa.BinOp:
		// arithmetic / comparison / string concatenation: no references
	case *ssa.Select:
		a.set(x, sharedOrigin("select"))
	case *ssa.Call:
		a.doCall(x, x.Common(), x)
	case *ssa.Defer:
		a.doCall(x, x.Common(), nil)
	case *ssa.Go:
		a.doCall(x, x.Common(), nil)
	case *ssa.Store:
		if pointerLike(x.Val.Type()) {
			a.addContent(a.get(x.Addr), a.get(x.Val), x.Val.Type())
		}
	case *ssa.MapUpdate:
		a.addContent(a.get(x.Map), a.get(x.Key), x.Key.Type())
		a.addContent(a.get(x.Map), a.get(x.Value), x.Value.Type())
	case *ssa.Return:
		if fn != a.top {
			return
		}
		for k, r := range x.Results {
			if k >= len(a.sum.results) || !pointerLike(r.Type()) {
				continue
			}
			o := a.get(r)
			var c Origin
			a.reach(o).sites.each(func(s int) { c, _ = c.join(a.siteContent(s, nil)) })
			d, ch1 := a.sum.results[k].direct.join(a.collapse(o))
			cc := a.collapse(c)
			cc.fresh = false
			c2, ch2 := a.sum.results[k].content.join(cc)
			if ch1 || ch2 {
				a.sum.results[k].direct, a.sum.results[k].content = d, c2
				a.f.changed = true
			}
		}
	case *ssa.Send, *ssa.DebugRef, *ssa.Jump, *ssa.If, *ssa.Panic, *ssa.RunDefers:
	default:
		if v, ok := ins.(ssa.Value); ok {
			a.set(v, sharedOrigin(fmt.Sprintf("unmodelled instruction %T", ins)))
		}
	}
}

// sameAddr: do two address expressions denote the same location (same SSA base, same constant path)?
func sameAddr(p, q ssa.Value) bool {
	if p == q {
		return true
	}
	switch x := p.(type) {
	case *ssa.FieldAddr:
		y, ok := q.(*ssa.FieldAddr)
		return ok && x.Field == y.Field && sameAddr(x.X, y.X)
	case *ssa.IndexAddr:
		y, ok := q.(*ssa.IndexAddr)
		if !ok || !sameAddr(x.X, y.X) {
			return false
		}
		cx, ok1 := x.Index.(*ssa.Const)
		cy, ok2 := y.Index.(*ssa.Const)
		return ok1 && ok2 && cx.Value != nil && cy.Value != nil && cx.Value.ExactString() == cy.Value.ExactString()
	}
	return false
}

// forwardedStore: block-local store-to-load forwarding. Returns the value stored by the closest preceding
// Store to the same address in the same basic block, provided no instruction in between can write memory.
func forwardedStore(ld *ssa.UnOp) ssa.Value {
	b := ld.Block()
	if b == nil {
		return nil
	}
	idx := -1
	for i, ins := range b.Instrs {
		if ins == ssa.Instruction(ld) {
			idx = i
			break
		}
	}
	for i := idx - 1; i >= 0; i-- {
		switch x := b.Instrs[i].(type) {
		case *ssa.Store:
			if sameAddr(x.Addr, ld.X) && types.Identical(x.Val.Type(), ld.Type()) {
				return x.Val
			}
			return nil
		case *ssa.MapUpdate, *ssa.Call, *ssa.Defer, *ssa.Go, *ssa.Send, *ssa.Select, *ssa.RunDefers, *ssa.Next:
			return nil
		}
	}
	return nil
}

func (a *act) setCallRes(ins ssa.Instruction, val ssa.Value, res []Origin) {
	old := a.callRes[ins]
	if old == nil {
		old = make([]Origin, len(res))
		a.callRes[ins] = old
	}
	for i := range res {
		if i < len(old) {
			n, ch := old[i].join(res[i])
			if ch {
				old[i] = n
				a.changed = true
			}
		}
	}
	if val != nil {
		if tup, ok := val.Type().(*types.Tuple); ok {
			for i := 0; i < tup.Len() && i < len(res); i++ {
				if pointerLike(tup.At(i).Type()) {
					a.set(val, res[i])
				}
			}
		} else if len(res) > 0 {
			a.set(val, res[0])
		}
	}
}

func (a *act) doCall(ins ssa.Instruction, c *ssa.CallCommon, val ssa.Value) {
	args := callArgs(c)
	nres := c.Signature().Results().Len()
	sharedRes := func(why string) {
		res := make([]Origin, nres)
		for i := range res {
			if pointerLike(c.Signature().Results().At(i).Type()) {
				res[i] = sharedOrigin(why)
			}
		}
		a.setCallRes(ins, val, res)
	}
	if b, ok := c.Value.(*ssa.Builtin); ok && !c.IsInvoke() {
		switch b.Name() {
		case "append":
			so := a.siteOrigin(ins, "append")
			o0 := a.get(args[0])
			et0 := elemType(args[0].Type())
			if et0 != nil {
				a.addContent(so, a.load(o0, et0), et0)
			}
			if len(args) > 1 && !isString(args[1].Type()) {
				if et := elemType(args[1].Type()); et != nil {
					added := a.load(a.get(args[1]), et)
					a.addContent(so, added, et)
					a.addContent(o0, added, et)
				}
			}
			r, _ := o0.join(so)
			if val != nil {
				a.set(val, r)
			}
		case "copy":
			if len(args) == 2 && !isString(args[1].Type()) {
				if et := elemType(args[1].Type()); et != nil {
					a.addContent(a.get(args[0]), a.load(a.get(args[1]), et), et)
				}
			}
		case "recover":
			if val != nil {
				a.set(val, sharedOrigin("recovered panic value"))
			}
		}
		return
	}
	if c.IsInvoke() {
		iface, _ := c.Value.Type().Underlying().(*types.Interface)
		var callees []*ssa.Function
		if iface != nil {
			callees = a.w.cha(iface, c.Method)
		}
		if len(callees) == 0 {
			sharedRes("result of an interface method with no module implementation")
			return
		}
		for _, cal := range callees {
			if a.w.isModuleFn(cal) && a.f.sums[cal] != nil {
				a.applySummary(a.f.sums[cal], args, ins, val)
			} else {
				sharedRes("result of an unresolved interface callee")
			}
		}
		return
	}
	if cal := c.StaticCallee(); cal != nil {
		switch {
		case cal.Parent() != nil:
			sharedRes("result of a directly called closure")
		case a.w.isModuleFn(cal) && a.f.sums[cal] != nil:
			a.applySummary(a.f.sums[cal], args, ins, val)
		case cal.Synthetic != "":
			sharedRes("result of a synthetic wrapper")
		default:
			ef, ok := externFrame(cal)
			if !ok {
				sharedRes("result of an unknown external callee " + cal.String())
				return
			}
			res := make([]Origin, nres)
			for i := range res {
				if !pointerLike(c.Signature().Results().At(i).Type()) {
					continue
				}
				if i != 0 {
					res[i] = a.siteOrigin(ins, "call")
					continue
				}
				switch {
				case ef.result == "fresh":
					res[i] = a.siteOrigin(ins, "call")
				case ef.result == "alias":
					res[i] = a.siteOrigin(ins, "call")
					for _, arg := range args {
						d := a.reach(a.get(arg))
						d.pdeep |= d.pdir
						res[i], _ = res[i].join(d)
					}
				case strings.HasPrefix(ef.result, "arg"):
					var n int
					fmt.Sscanf(ef.result, "arg%d", &n)
					if n < len(args) {
						res[i] = a.get(args[n])
					}
					if ef.appendLike {
						res[i], _ = res[i].join(a.siteOrigin(ins, "call"))
					}
				default:
					res[i] = a.siteOrigin(ins, "call")
				}
			}
			a.setCallRes(ins, val, res)
		}
		return
	}
	sharedRes("result of a call through a function value")
}

func (a *act) applySummary(sum *Summary, args []ssa.Value, ins ssa.Instruction, val ssa.Value) {
	site := -1
	getSite := func() int {
		if site < 0 {
			site = a.site(ins, "call")
		}
		return site
	}
	res := make([]Origin, len(sum.results))
	for k, r := range sum.results {
		if r.direct.isZero() {
			continue
		}
		s := -1
		if r.direct.fresh {
			s = getSite()
		}
		res[k] = a.subst(r.direct, args, max(s, 0))
		if r.direct.fresh && !r.content.isZero() {
			a.addContent(Origin{sites: bitset(nil).with(s)}, a.subst(r.content, args, s), nil)
		}
	}
	a.setCallRes(ins, val, res)
	for j := 0; j < len(args) && j < maxParams; j++ {
		st := sum.stores[j]
		if st.isZero() {
			continue
		}
		s := 0
		if st.fresh {
			s = getSite()
		}
		so := a.subst(st, args, s)
		target := a.reach(a.get(args[j]))
		a.addContent(target, so, nil)
	}
}

// ---- checking --------------------------------------------------------------------

type verdict struct {
	ok     bool
	rule   string
	reason string
}

func (a *act) rec(fn *ssa.Function, ins ssa.Instruction, kind string, ord map[string]int) *SiteRec {
	ord[kind]++
	if r, ok := a.f.recs[ins]; ok {
		return r
	}
	r := &SiteRec{fn: fn, top: a.top, ins: ins, kind: kind, ord: ord[kind]}
	a.f.recs[ins] = r
	return r
}

func (a *act) paramName(i int) string {
	if i < len(a.top.Params) {
		return a.top.Params[i].Name()
	}
	return fmt.Sprintf("#%d", i)
}

func (a *act) describeSites(o Origin) string {
	var parts []string
	o.sites.each(func(s int) {
		if len(parts) < 2 {
			parts = append(parts, instrText(a.sites[s].ins))
		}
	})
	return strings.Join(parts, " | ")
}

func (a *act) addDemand(i int, deep bool, origins map[*SiteRec]bool) {
	d := 0
	if deep {
		d = 1
	}
	m := a.sum.dem[d][i]
	if m == nil {
		m = map[*SiteRec]bool{}
		a.sum.dem[d][i] = m
	}
	for r := range origins {
		if !m[r] {
			m[r] = true
			a.f.changed = true
		}
	}
}

// own decides whether memory with origin o may be written by this activation.
func (a *act) own(o Origin, origins map[*SiteRec]bool, what string) verdict {
	if o.shared {
		return verdict{false, "", what + " targets memory this activation does not own: " + o.why}
	}
	pb := o.pdir | o.pdeep
	if pb != 0 {
		okd, whyNot := a.f.demandable(a.top)
		var names []string
		for i := 0; i < maxParams; i++ {
			if pb&(1<<uint(i)) == 0 {
				continue
			}
			names = append(names, a.paramName(i))
			if !okd {
				return verdict{false, "", fmt.Sprintf("%s goes through parameter %q of %s, which %s",
					what, a.paramName(i), a.w.display[a.top], whyNot)}
			}
			a.addDemand(i, o.pdeep&(1<<uint(i)) != 0, origins)
		}
		return verdict{true, "c", fmt.Sprintf("through parameter %s; every module call site is checked to pass memory its caller owns",
			strings.Join(names, ","))}
	}
	if o.sites.empty() {
		return verdict{true, "a", "no pre-existing memory reachable (nil or value-only)"}
	}
	if o.capt {
		return verdict{true, "b", "captured local of the enclosing activation: " + a.describeSites(o)}
	}
	isCall := false
	o.sites.each(func(s int) {
		if a.sites[s].kind == "call" {
			isCall = true
		}
	})
	if isCall {
		return verdict{true, "d", "fresh result of a call made by this activation: " + a.describeSites(o)}
	}
	return verdict{true, "a", "allocated in this activation: " + a.describeSites(o)}
}

func (a *act) emit(rec *SiteRec, v verdict) {
	if !a.f.final {
		return
	}
	ob := &Obligation{
		Name:   fmt.Sprintf("%s#frame.%s%d", a.w.display[rec.fn], rec.kind, rec.ord),
		Prop:   "C16",
		Func:   a.w.display[rec.fn],
		Kind:   rec.kind,
		Instr:  instrText(rec.ins),
		Pos:    a.w.instrPos(rec.ins),
		OK:     v.ok,
		Rule:   v.rule,
		Reason: v.reason,
	}
	a.f.obls = append(a.f.obls, ob)
	a.f.oblByRec[rec] = ob
}

func rootGlobal(v ssa.Value) *ssa.Global {
	for i := 0; i < 50; i++ {
		switch x := v.(type) {
		case *ssa.Global:
			return x
		case *ssa.FieldAddr:
			v = x.X
		case *ssa.IndexAddr:
			v = x.X
		default:
			return nil
		}
	}
	return nil
}

func (a *act) check() {
	for _, fn := range a.fns {
		ord := map[string]int{}
		var nondet []struct {
			ins ssa.Instruction
			why string
		}
		for _, b := range fn.Blocks {
			for _, ins := range b.Instrs {
				switch x := ins.(type) {
				case *ssa.Store:
					kind := "store"
					if g := rootGlobal(x.Addr); g != nil {
						kind = "global"
					}
					rec := a.rec(fn, ins, kind, ord)
					what := "store"
					switch x.Addr.(type) {
					case *ssa.FieldAddr:
						what = "field store"
					case *ssa.IndexAddr:
						what = "element store"
					}
					a.emit(rec, a.own(a.get(x.Addr), map[*SiteRec]bool{rec: true}, what))
				case *ssa.MapUpdate:
					rec := a.rec(fn, ins, "mapupdate", ord)
					a.emit(rec, a.own(a.get(x.Map), map[*SiteRec]bool{rec: true}, "map update"))
				case *ssa.Send:
					nondet = append(nondet, struct {
						ins ssa.Instruction
						why string
					}{ins, "channel send"})
				case *ssa.Select:
					nondet = append(nondet, struct {
						ins ssa.Instruction
						why string
					}{ins, "select statement"})
				case *ssa.MakeChan:
					nondet = append(nondet, struct {
						ins ssa.Instruction
						why string
					}{ins, "channel creation"})
				case *ssa.UnOp:
					if x.Op == token.ARROW {
						nondet = append(nondet, struct {
							ins ssa.Instruction
							why string
						}{ins, "channel receive"})
					}
				case *ssa.Range:
					if _, ok := x.X.Type().Underlying().(*types.Map); ok {
						nondet = append(nondet, struct {
							ins ssa.Instruction
							why string
						}{ins, "range over a map (iteration order is not deterministic)"})
					}
				case *ssa.Convert:
					if isUnsafePtr(x.Type()) || isUnsafePtr(x.X.Type()) {
						nondet = append(nondet, struct {
							ins ssa.Instruction
							why string
						}{ins, "unsafe.Pointer conversion"})
					}
				case *ssa.Go:
					nondet = append(nondet, struct {
						ins ssa.Instruction
						why string
					}{ins, "go statement"})
					a.checkCall(fn, ins, x.Common(), ord)
				case *ssa.Defer:
					a.checkCall(fn, ins, x.Common(), ord)
				case *ssa.Call:
					a.checkCall(fn, ins, x.Common(), ord)
				}
			}
		}
		if a.f.final {
			if len(nondet) == 0 {
				a.f.obls = append(a.f.obls, &Obligation{
					Name: a.w.display[fn] + "#frame.nondet0", Prop: "C16", Func: a.w.display[fn], Kind: "nondet",
					Instr: "(whole body)", Pos: a.w.relPos(fn.Pos()), OK: true, Rule: "scan",
					Reason: "no go statement, channel operation, select, map iteration or unsafe.Pointer conversion in the SSA body",
				})
			}
			for i, nd := range nondet {
				a.f.obls = append(a.f.obls, &Obligation{
					Name: fmt.Sprintf("%s#frame.nondet%d", a.w.display[fn], i+1), Prop: "C16", Func: a.w.display[fn], Kind: "nondet",
					Instr: instrText(nd.ins), Pos: a.w.instrPos(nd.ins), OK: false,
					Reason: "nondeterminism/unsafe construct that must be absent: " + nd.why,
				})
			}
		}
	}
}

func (a *act) checkCall(fn *ssa.Function, ins ssa.Instruction, c *ssa.CallCommon, ord map[string]int) {
	args := callArgs(c)
	if b, ok := c.Value.(*ssa.Builtin); ok && !c.IsInvoke() {
		switch b.Name() {
		case "append":
			rec := a.rec(fn, ins, "append", ord)
			o := a.get(args[0])
			switch {
			case o.shared:
				a.emit(rec, verdict{false, "", "append to a slice held in memory this activation does not own may write into its spare capacity: " + o.why})
			case o.pdeep != 0:
				od := o
				od.pdir = 0
				v := a.own(od, map[*SiteRec]bool{rec: true}, "append to a slice loaded through a parameter (may write into its spare capacity)")
				a.emit(rec, v)
			case o.pdir != 0:
				a.emit(rec, verdict{true, "append", "appends to the buffer the caller handed over (existing elements are preserved by append)"})
			default:
				v := a.own(o, nil, "append")
				v.rule = "append/" + v.rule
				a.emit(rec, v)
			}
		case "copy":
			rec := a.rec(fn, ins, "copy", ord)
			a.emit(rec, a.own(a.get(args[0]), map[*SiteRec]bool{rec: true}, "copy destination"))
		case "delete":
			rec := a.rec(fn, ins, "mapupdate", ord)
			a.emit(rec, a.own(a.get(args[0]), map[*SiteRec]bool{rec: true}, "map delete"))
		case "clear":
			rec := a.rec(fn, ins, "store", ord)
			a.emit(rec, a.own(a.get(args[0]), map[*SiteRec]bool{rec: true}, "clear"))
		}
		return
	}
	rec := a.rec(fn, ins, "call", ord)
	checkCallee := func(cal *ssa.Function) verdict {
		if a.f.final {
			a.f.callSitesOf[cal]++
		}
		sum := a.f.sums[cal]
		res := verdict{true, "call:no-param-writes", "callee " + a.w.display[cal] + " writes through none of its parameters (its own frame is proved separately)"}
		for d := 0; d < 2; d++ {
			for j := 0; j < len(args) && j < maxParams; j++ {
				origins := sum.dem[d][j]
				if len(origins) == 0 {
					continue
				}
				o := a.get(args[j])
				if d == 1 {
					o = a.reach(o)
					o.pdeep |= o.pdir
				}
				pn := fmt.Sprintf("#%d", j)
				if j < len(cal.Params) {
					pn = cal.Params[j].Name()
				}
				v := a.own(o, origins, fmt.Sprintf("call to %s, which writes through its parameter %q;", a.w.display[cal], pn))
				if !v.ok {
					if a.f.final {
						for orec := range origins {
							if !a.w.exempt[orec.top] && orec != rec {
								a.f.failedOrigins[orec] = fmt.Sprintf("writes through a parameter, and the call at %s (%s) passes memory its activation does not own",
									a.w.instrPos(ins), a.w.display[fn])
							}
						}
					}
					return v
				}
				res = verdict{true, "call:" + v.rule, fmt.Sprintf("callee %s writes through parameter %q; argument: %s", a.w.display[cal], pn, v.reason)}
			}
		}
		return res
	}
	if c.IsInvoke() {
		iface, _ := c.Value.Type().Underlying().(*types.Interface)
		var callees []*ssa.Function
		if iface != nil {
			callees = a.w.cha(iface, c.Method)
		}
		if len(callees) == 0 {
			a.emit(rec, verdict{true, "call:non-module-interface", "interface method with no implementation among module types (e.g. error.Error): implementations outside the module are outside the contract"})
			return
		}
		res := verdict{true, "call:no-param-writes", fmt.Sprintf("CHA: %d module implementations, none writes through a parameter", len(callees))}
		for _, cal := range callees {
			if !a.w.isModuleFn(cal) || a.f.sums[cal] == nil {
				a.emit(rec, verdict{false, "", "interface callee without a body: " + cal.String()})
				return
			}
			v := checkCallee(cal)
			if !v.ok {
				a.emit(rec, v)
				return
			}
			if v.rule != "call:no-param-writes" {
				res = v
			}
		}
		a.emit(rec, res)
		return
	}
	if cal := c.StaticCallee(); cal != nil {
		switch {
		case cal.Parent() != nil:
			a.emit(rec, verdict{true, "call:closure", "closure of this activation called directly; its body is analysed as part of this activation"})
		case a.w.isModuleFn(cal) && a.f.sums[cal] != nil:
			a.emit(rec, checkCallee(cal))
		case cal.Synthetic != "":
			a.emit(rec, verdict{false, "", "unsupported synthetic callee (bound method value / method expression thunk / wrapper) " + cal.String() + ": failing closed"})
		default:
			name := externName(cal)
			ef, ok := externFrame(cal)
			if !ok {
				a.emit(rec, verdict{false, "", "unknown external callee " + name + " (no assumed frame): failing closed"})
				return
			}
			a.f.externUsed[name] = ef.note
			res := verdict{true, "call:extern", "assumed frame of " + name + ": " + ef.note}
			for _, j := range ef.writes {
				if j >= len(args) {
					continue
				}
				o := a.get(args[j])
				if ef.deep {
					o = a.reach(o)
					o.pdeep |= o.pdir
				}
				v := a.own(o, map[*SiteRec]bool{rec: true}, fmt.Sprintf("call to %s, which writes into its argument %d;", name, j))
				if !v.ok {
					a.emit(rec, v)
					return
				}
				res = verdict{true, "call:extern-" + v.rule, "assumed frame of " + name + ": " + ef.note + "; argument: " + v.reason}
			}
			if ef.appendLike && len(args) > 0 {
				o := a.get(args[0])
				if o.shared || o.pdeep != 0 {
					od := o
					od.pdir = 0
					v := a.own(od, map[*SiteRec]bool{rec: true}, "append-like call "+name+" on a slice loaded from memory this activation does not own")
					if !v.ok {
						a.emit(rec, v)
						return
					}
				}
			}
			a.emit(rec, res)
		}
		return
	}
	// call through a function value
	o := a.get(c.Value)
	switch {
	case o.shared:
		a.emit(rec, verdict{false, "", "call through a function value that comes from memory this activation does not own: " + o.why})
	case o.pdeep != 0:
		a.emit(rec, verdict{false, "", "call through a function value loaded through a parameter (it may be a closure stored in a shared object)"})
	default:
		a.emit(rec, verdict{true, "call:func-value", "function value is a parameter handed over by the caller or a closure of this activation: module closures are analysed in their creator's activation; caller-supplied functions are outside the contract"})
	}
}

func instrText(ins ssa.Instruction) string {
	s := ins.String()
	if v, ok := ins.(ssa.Value); ok && v.Name() != "" {
		if _, isStore := ins.(*ssa.Store); !isStore {
			s = v.Name() + " = " + s
		}
	}
	if len(s) > 200 {
		s = s[:200] + "..."
	}
	return s
}

func (w *World) instrPos(ins ssa.Instruction) string {
	if p := ins.Pos(); p.IsValid() {
		return w.relPos(p)
	}
	// fall back to operands, then neighbours in the block, then the function
	for _, op := range ins.Operands(nil) {
		if op != nil && *op != nil {
			if p := (*op).Pos(); p.IsValid() {
				if _, isParam := (*op).(*ssa.Parameter); !isParam {
					return w.relPos(p)
				}
			}
		}
	}
	if b := ins.Block(); b != nil {
		idx := -1
		for i, x := range b.Instrs {
			if x == ins {
				idx = i
			}
		}
		for i := idx - 1; i >= 0; i-- {
			if p := b.Instrs[i].Pos(); p.IsValid() {
				return w.relPos(p)
			}
		}
		for i := idx + 1; i >= 0 && i < len(b.Instrs); i++ {
			if p := b.Instrs[i].Pos(); p.IsValid() {
				return w.relPos(p)
			}
		}
	}
	if ins.Parent() != nil {
		return w.relPos(ins.Parent().Pos())
	}
	return ""
}

// reachableFromRoots: static callees, CHA-resolved interface calls, closures, function values.
func (w *World) reachableFromRoots() map[*ssa.Function]bool {
	seen := map[*ssa.Function]bool{}
	var work []*ssa.Function
	push := func(fn *ssa.Function) {
		if fn != nil && !seen[fn] && w.isModuleFn(fn) {
			seen[fn] = true
			work = append(work, fn)
		}
	}
	var roots []*ssa.Function
	for fn := range w.roots {
		roots = append(roots, fn)
	}
	sort.Slice(roots, func(i, j int) bool { return w.display[roots[i]] < w.display[roots[j]] })
	for _, r := range roots {
		push(r)
	}
	for len(work) > 0 {
		fn := work[len(work)-1]
		work = work[:len(work)-1]
		for _, an := range fn.AnonFuncs {
			push(an)
		}
		for _, b := range fn.Blocks {
			for _, ins := range b.Instrs {
				if c, ok := ins.(ssa.CallInstruction); ok {
					cc := c.Common()
					if cc.IsInvoke() {
						if iface, ok := cc.Value.Type().Underlying().(*types.Interface); ok {
							for _, cal := range w.cha(iface, cc.Method) {
								push(cal)
							}
						}
					}
				}
				for _, op := range ins.Operands(nil) {
					if op != nil && *op != nil {
						if f, ok := (*op).(*ssa.Function); ok {
							push(f)
						}
					}
				}
			}
		}
	}
	return seen
}
