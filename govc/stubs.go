package main

import "fmt"

func cmdBounded(args []string) { fmt.Println("bounded: not built yet") }
