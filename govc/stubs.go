package main

import "fmt"

func cmdSelftest(args []string) { fmt.Println("selftest: not built yet") }
func cmdBounded(args []string)  { fmt.Println("bounded: not built yet") }
