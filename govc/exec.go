package main

import (
	"fmt"
	"go/ast"
	"go/constant"
	"go/printer"
	"go/token"
	"go/types"
	"math"
	"sort"
	"strings"
)

// ---------------------------------------------------------------- values

type Val struct {
	T          *Term
	Cls        *Term // float class: nil = finite; else Int term 0 finite,1 +inf,2 -inf,3 nan
	Lit        bool  // untyped numeric literal
	GoT        types.Type
	Loc        types.Object // address of this local variable (pointer-to-local)
	LocHeap    *heapBase    // address of a scalar / pointer field of an object (&g.extra)
	Mag        float64      // log2 bound on magnitude for exact-mode floats; <0 unknown
	Fn         *ast.FuncLit // closure literal
	FnObj      types.Object // func-typed parameter (callback)
	Tuple      []*Val
	ArrOwner   *types.Named // array-of-struct field of the object at T: elements are sub-objects
	ArrField   *types.Var
	FreshSlice bool // slice made by make() in this activation and not yet shared
	Inexact    bool // derived from a rounded quotient / nudge: later arithmetic is covered by A-DIV / A-NUDGE, not by exactness
}

func tv(t *Term, gt types.Type) *Val { return &Val{T: t, GoT: gt, Mag: -1} }

type Obligation struct {
	Name                    string
	Kind                    string // post, inv.init, inv.preserve, pre, safe, dec, cover, lemma, proto
	Func                    string
	Guard                   *Term
	Goal                    *Term
	NDecl                   int // number of declarations visible
	Unfold                  int
	Props                   []string
	Src                     string
	Cover                   bool       // satisfiable-guard check (expects sat)
	Inputs                  []ModelVar // input variables for replay
	ex                      *Exec
	Static                  string // statically decided failure reason (no SMT)
	fullSMT, weakSMT, ufSMT string
	Reveal                  []string
}

type ModelVar struct {
	Name string // go-level name
	Term *Term
	GoT  types.Type
}

type Decl struct {
	Name string
	S    *Sort
	Def  *Term // nil => declare-const
	Dom  bool  // exact-mode input leaf: Int constant (Real when integrality is dropped)
}

type State struct {
	vars  map[types.Object]*Val
	guard *Term
	ghost map[string]*Val
}

func (s *State) clone() *State {
	n := &State{vars: make(map[types.Object]*Val, len(s.vars)), guard: s.guard, ghost: map[string]*Val{}}
	for k, v := range s.vars {
		n.vars[k] = v
	}
	for k, v := range s.ghost {
		n.ghost[k] = v
	}
	return n
}

type Flow struct {
	normal    *State
	breaks    []*State
	continues []*State
}

type Exec struct {
	loopOverride   map[int]*LoopSpec // contracts of canonical counted loops completed by autoCountedLoop
	retTextSeen    map[int]int       // per text-anchored ret hint: matching return statements seen so far
	forIdx         types.Object      // init variable of the classic for loop about to be processed
	loopIdxStack   []types.Object    // per active execLoop: its $i variable (nil for none)
	closureIdx     []*Term           // indices of the callee iterations whose callback literal is being executed (innermost last)
	stmtHintActive map[int]int
	w              *World
	fi             *FuncInfo
	fc             *FuncContract
	info           *types.Info
	decls          []Decl
	obls           []*Obligation
	entry          *State // entry values of params
	arith          string
	loopN          int
	callN          int
	retN           int
	safeN          int
	coverN         int
	skippedPaths   []string
	skipped        int // obligations not generated because of an `only` clause
	results        []*types.Var
	inputs         []ModelVar
	notes          []string // inexact ops etc.
	assumedCalls   map[string]bool
	unfold         int
	iterState      bool // function has iter protocol
	heapTouched    map[string]*Term
	heapMayWrite   map[string]*Term
	allocates      bool
	curLoopUnfold  int
}

const exactBound = 1 << 20

func (ex *Exec) fresh(base string, s *Sort) *Term {
	if s.Kind == KDT && !s.IsSlice {
		// scalarise: a struct-valued unknown is a constructor applied to fresh leaves,
		// so that accessors simplify away and kernels become pure arithmetic
		args := make([]*Term, len(s.Fields))
		for i, f := range s.Fields {
			args[i] = ex.fresh(base+"_"+f.Name, f.S)
		}
		return tMkDT(s, args...)
	}
	name := ex.w.freshName(sanitize(base))
	ex.decls = append(ex.decls, Decl{Name: name, S: s})
	return cnst(name, s)
}

// freshInput: like fresh, but in exact mode float leaves are integer-valued:
// (i2r c) with c an Int constant (the weakened variant declares c Real and i2r the identity).
func (ex *Exec) freshInput(base string, s *Sort) *Term {
	if ex.arith != "exact" {
		return ex.fresh(base, s)
	}
	switch {
	case s.Kind == KDT && !s.IsSlice:
		args := make([]*Term, len(s.Fields))
		for i, f := range s.Fields {
			args[i] = ex.freshInput(base+"_"+f.Name, f.S)
		}
		return tMkDT(s, args...)
	case s.Kind == KReal:
		name := ex.w.freshName(sanitize(base))
		ex.decls = append(ex.decls, Decl{Name: name, S: SInt, Dom: true})
		return mk("i2r", SReal, cnst(name, SInt))
	}
	return ex.fresh(base, s)
}

func (ex *Exec) define(base string, t *Term) *Term {
	if len(t.Args) == 0 {
		return t
	}
	name := ex.w.freshName(sanitize(base))
	ex.decls = append(ex.decls, Decl{Name: name, S: t.S, Def: t})
	return cnst(name, t.S)
}

func sanitize(s string) string {
	var b strings.Builder
	for _, c := range s {
		if (c >= 'a' && c <= 'z') || (c >= 'A' && c <= 'Z') || (c >= '0' && c <= '9') || c == '_' {
			b.WriteRune(c)
		} else {
			b.WriteRune('_')
		}
	}
	return b.String()
}

// skolemGoal strips universal quantifiers in positive positions of a goal (forall-introduction):
// the bound variables become fresh constants, so that ground instantiation sees their terms.
func (ex *Exec) skolemGoal(t *Term) *Term {
	switch {
	case t.Op == "forall" && t.BVars != nil:
		m := map[string]*Term{}
		for _, v := range t.BVars {
			m[v.Op] = ex.fresh("sk_"+strings.SplitN(v.Op, "$", 2)[0], v.S)
		}
		return ex.skolemGoal(t.Args[0].subst(m))
	case t.Op == "=>" && len(t.Args) == 2:
		r := ex.skolemGoal(t.Args[1])
		if r == t.Args[1] {
			return t
		}
		return mk("=>", SBool, t.Args[0], r)
	case t.Op == "and":
		args := make([]*Term, len(t.Args))
		ch := false
		for i, a := range t.Args {
			args[i] = ex.skolemGoal(a)
			if args[i] != a {
				ch = true
			}
		}
		if ch {
			return mk("and", SBool, args...)
		}
	}
	return t
}

func (ex *Exec) oblige(st *State, kind, name string, goal *Term, src string) *Obligation {
	goal = ex.skolemGoal(goal)
	if ex.fc != nil && len(ex.fc.Only) > 0 && kind != "cover" {
		keep := false
		for _, p := range ex.fc.Only {
			if strings.HasPrefix(name, p) || (strings.HasPrefix(p, "*") && strings.HasSuffix(name, p[1:])) {
				keep = true
			}
		}
		if !keep {
			ex.skipped++
			return &Obligation{Name: ex.fi.Key + "#" + name, Kind: kind, Func: ex.fi.Key, Guard: st.guard, Goal: goal, ex: ex}
		}
	}
	o := &Obligation{Name: ex.oblPrefix() + "#" + name, Kind: kind, Func: ex.fi.Key, Guard: st.guard, Goal: goal, NDecl: len(ex.decls), Unfold: ex.unfoldDepth(), Src: src, ex: ex, Inputs: ex.inputs}
	if ex.fc != nil {
		o.Props = ex.fc.Props
		o.Reveal = ex.fc.Reveal
	}
	ex.obls = append(ex.obls, o)
	return o
}

// coverPoint: vacuity guard -- the path condition at this program point must be satisfiable.
func (ex *Exec) coverPoint(st *State, kind, where string) {
	ex.coverN++
	o := ex.oblige(st, "cover", fmt.Sprintf("cover.%s%d", kind, ex.coverN), tFalse, where+": "+kind+" reachable")
	o.Cover = true
}

// oblPrefix: obligations of a contract variant carry the variant in their name.
func (ex *Exec) oblPrefix() string {
	if ex.fc != nil {
		if i := strings.Index(ex.fc.Key, "@"); i >= 0 {
			return ex.fi.Key + ex.fc.Key[i:]
		}
	}
	return ex.fi.Key
}

func (ex *Exec) unfoldDepth() int {
	if ex.curLoopUnfold > 0 {
		return ex.curLoopUnfold
	}
	if ex.unfold > 0 {
		return ex.unfold
	}
	return 1
}

func (ex *Exec) assume(st *State, fact *Term) {
	st.guard = tAnd(st.guard, fact)
}

func (ex *Exec) pos(n ast.Node) string {
	p := ex.w.Fset.Position(n.Pos())
	return fmt.Sprintf("%s:%d", shortFile(p.Filename), p.Line)
}

func shortFile(f string) string {
	if i := strings.Index(f, "/repo/"); i >= 0 {
		return f[i+6:]
	}
	return f
}

// ---------------------------------------------------------------- float helpers

func isFloat(t types.Type) bool {
	if t == nil {
		return false
	}
	b, ok := t.Underlying().(*types.Basic)
	return ok && b.Info()&types.IsFloat != 0
}

func isIntType(t types.Type) bool {
	if t == nil {
		return false
	}
	b, ok := t.Underlying().(*types.Basic)
	return ok && b.Info()&types.IsInteger != 0
}

// domain hypothesis for exact-mode float leaves inside a value of sort s
func (ex *Exec) domainFacts(t *Term, gt types.Type) *Term {
	if ex.arith != "exact" {
		return tTrue
	}
	switch t.S.Kind {
	case KReal:
		b := realLit(fmt.Sprint(exactBound))
		if t.Op == "i2r" {
			return tAnd(mk("<=", SBool, mk("-", SReal, b), t), mk("<=", SBool, t, b))
		}
		return tAnd(mk("is_int_dom", SBool, t), mk("<=", SBool, mk("-", SReal, b), t), mk("<=", SBool, t, b))
	case KDT:
		if t.S.IsSlice {
			return tTrue
		}
		var fs []*Term
		for _, f := range t.S.Fields {
			if f.S.Kind == KReal || f.S.Kind == KDT {
				fs = append(fs, ex.domainFacts(tField(t, f.Name), nil))
			}
		}
		return tAnd(fs...)
	}
	return tTrue
}

func cmpCls(op string, a, b *Val) *Term {
	// a,b Real-valued with optional class
	plain := mk(op, SBool, a.T, b.T)
	if op == "=" {
		plain = tEq(a.T, b.T)
	}
	if a.Cls == nil && b.Cls == nil {
		return plain
	}
	ca, cb := a.Cls, b.Cls
	if ca == nil {
		ca = intLit(0)
	}
	if cb == nil {
		cb = intLit(0)
	}
	fin := tAnd(tEq(ca, intLit(0)), tEq(cb, intLit(0)))
	is := func(c *Term, n int64) *Term { return tEq(c, intLit(n)) }
	eq := tOr(tAnd(fin, tEq(a.T, b.T)), tAnd(is(ca, 1), is(cb, 1)), tAnd(is(ca, 2), is(cb, 2)))
	lt := func(x, y *Val, cx, cy *Term) *Term {
		return tOr(tAnd(fin, mk("<", SBool, x.T, y.T)),
			tAnd(is(cx, 2), tOr(is(cy, 0), is(cy, 1))),
			tAnd(is(cx, 0), is(cy, 1)))
	}
	switch op {
	case "=":
		return eq
	case "<":
		return lt(a, b, ca, cb)
	case ">":
		return lt(b, a, cb, ca)
	case "<=":
		return tOr(eq, lt(a, b, ca, cb))
	case ">=":
		return tOr(eq, lt(b, a, cb, ca))
	}
	panic("cmpCls " + op)
}

func pow2(n int) string {
	return fmt.Sprintf("%d.0", int64(1)<<uint(n))
}

func tAbsLt(t *Term, bound string) *Term {
	b := cnst(bound, SReal)
	return tAnd(mk("<", SBool, mk("-", SReal, b), t), mk("<", SBool, t, b))
}

// floatArith applies + - * / on float values according to the arithmetic mode.
func (ex *Exec) floatArith(st *State, op string, a, b *Val, where string) *Val {
	a, b = ex.coerceNum(a, SReal), ex.coerceNum(b, SReal)
	switch ex.arith {
	case "order", "abstract":
		// uninterpreted deterministic function of operands
		name := map[string]string{"+": "fadd", "-": "fsub", "*": "fmul", "/": "fdiv"}[op]
		// x/2-style midpoints keep uninterpreted too
		return &Val{T: mk(name, SReal, a.T, b.T), GoT: types.Typ[types.Float64], Mag: -1}
	}
	// exact mode
	for _, x := range []*Val{a, b} {
		if x.Cls != nil {
			ex.safeN++
			ex.oblige(st, "safe", fmt.Sprintf("safe.finite.%d", ex.safeN), tEq(x.Cls, intLit(0)), where+": operand of "+op+" must be finite")
		}
	}
	if op == "/" {
		if b.Lit || isNonzeroLit(b.T) {
			r := &Val{T: mk("/", SReal, a.T, b.T), GoT: types.Typ[types.Float64], Mag: a.Mag, Inexact: a.Inexact}
			return r
		}
		sign := ex.fresh("divsign", SBool)
		cls := tIte(tEq(b.T, realLit("0")), tIte(tEq(a.T, realLit("0")), intLit(3), tIte(sign, intLit(1), intLit(2))), intLit(0))
		q := ex.define("quot", mk("/", SReal, a.T, b.T))
		c := ex.define("qcls", cls)
		ex.notes = append(ex.notes, where+": float division modelled as exact quotient with IEEE class (A-DIV)")
		return &Val{T: q, Cls: c, GoT: types.Typ[types.Float64], Mag: -1, Inexact: true}
	}
	if a.Inexact || b.Inexact {
		ex.notes = append(ex.notes, where+": "+op+" on a rounded quotient / nudged value modelled as the real operation (A-DIV ii / A-NUDGE)")
		return &Val{T: mk(op, SReal, a.T, b.T), GoT: types.Typ[types.Float64], Mag: -1, Inexact: true}
	}
	r := &Val{T: mk(op, SReal, a.T, b.T), GoT: types.Typ[types.Float64], Mag: -1}
	if a.Mag >= 0 && b.Mag >= 0 {
		switch op {
		case "+", "-":
			r.Mag = math.Max(a.Mag, b.Mag) + 1
		case "*":
			r.Mag = a.Mag + b.Mag
		}
		if r.Mag > 52 {
			r.Mag = -1
		}
	}
	if r.Mag < 0 {
		ex.safeN++
		ex.oblige(st, "safe", fmt.Sprintf("safe.exact.%d", ex.safeN), tAbsLt(r.T, pow2(53)), where+": |"+op+" result| < 2^53 (exactness of binary64, A-FLOAT)")
	}
	return r
}

func isNonzeroLit(t *Term) bool {
	if len(t.Args) != 0 {
		return false
	}
	s := strings.TrimSuffix(t.Op, ".0")
	return isDigits(s) && strings.Trim(s, "0") != ""
}

func (ex *Exec) coerceNum(v *Val, s *Sort) *Val {
	if v.T.S.Eq(s) {
		return v
	}
	if v.T.S.Kind == KInt && s.Kind == KReal {
		n := *v
		n.T = toReal(v.T)
		if v.Lit {
			n.Mag = litMag(v.T)
		}
		return &n
	}
	return v
}

func litMag(t *Term) float64 {
	s := t.Op
	if t.Op == "-" && len(t.Args) == 1 {
		s = t.Args[0].Op
	}
	s = strings.TrimSuffix(s, ".0")
	var f float64
	fmt.Sscan(s, &f)
	if f < 1 {
		return 0
	}
	return math.Ceil(math.Log2(f + 1))
}

// ---------------------------------------------------------------- constants

func (ex *Exec) constVal(cv constant.Value, t types.Type) *Val {
	switch cv.Kind() {
	case constant.Bool:
		if constant.BoolVal(cv) {
			return tv(tTrue, t)
		}
		return tv(tFalse, t)
	case constant.Int:
		n, ok := constant.Int64Val(cv)
		if !ok {
			u, _ := constant.Uint64Val(cv)
			return &Val{T: cnst(fmt.Sprint(u), SInt), GoT: t, Lit: true, Mag: -1}
		}
		if isFloat(t) {
			v := &Val{T: realLit(fmt.Sprint(n)), GoT: t, Lit: true}
			v.Mag = litMag(v.T)
			return v
		}
		return &Val{T: intLit(n), GoT: t, Lit: true, Mag: -1}
	case constant.Float:
		r := constant.ToFloat(cv)
		num, den := constant.Num(r), constant.Denom(r)
		ns, ds := num.ExactString(), den.ExactString()
		var term *Term
		if ds == "1" {
			term = realLit(ns)
		} else {
			term = mk("/", SReal, realLit(ns), realLit(ds))
		}
		v := &Val{T: term, GoT: t, Lit: true}
		f, _ := constant.Float64Val(cv)
		v.Mag = math.Ceil(math.Log2(math.Abs(f) + 1))
		return v
	case constant.String:
		s := constant.StringVal(cv)
		str := ex.w.Reg.unint("Str")
		name := "str_" + fmt.Sprintf("%x", s)
		if s == "" {
			name = "str_empty"
		}
		return tv(cnst(name, str), t)
	}
	panic(unsupported("constant kind"))
}

// ---------------------------------------------------------------- expressions

func (ex *Exec) lookupVar(st *State, obj types.Object) *Val {
	if v, ok := st.vars[obj]; ok {
		return v
	}
	// package-level variable or constant
	if c, ok := obj.(*types.Const); ok {
		return ex.constVal(c.Val(), c.Type())
	}
	if v, ok := obj.(*types.Var); ok && v.Parent() == v.Pkg().Scope() {
		// package-level var: immutable global (frame checker enforces no stores)
		name := "G_" + mangle(shortPkg(v.Pkg().Path())) + "_" + v.Name()
		return tv(cnst(name, ex.w.sortOf(v.Type())), v.Type())
	}
	panic(unsupported("unbound variable " + obj.Name()))
}

func (ex *Exec) evalBool(st *State, e ast.Expr) *Term {
	v := ex.eval(st, e)
	return v.T
}

func (ex *Exec) eval(st *State, e ast.Expr) *Val {
	if tvv, ok := ex.info.Types[e]; ok && tvv.Value != nil {
		return ex.constVal(tvv.Value, tvv.Type)
	}
	switch e := e.(type) {
	case *ast.ParenExpr:
		return ex.eval(st, e.X)
	case *ast.Ident:
		if e.Name == "nil" {
			return tv(intLit(0), ex.info.TypeOf(e))
		}
		if e.Name == "true" {
			return tv(tTrue, types.Typ[types.Bool])
		}
		if e.Name == "false" {
			return tv(tFalse, types.Typ[types.Bool])
		}
		obj := ex.info.ObjectOf(e)
		return ex.lookupVar(st, obj)
	case *ast.BasicLit:
		panic(unsupported("non-constant literal"))
	case *ast.UnaryExpr:
		switch e.Op {
		case token.NOT:
			return tv(tNot(ex.eval(st, e.X).T), types.Typ[types.Bool])
		case token.SUB:
			x := ex.eval(st, e.X)
			r := *x
			r.T = mk("-", x.T.S, x.T)
			return &r
		case token.ADD:
			return ex.eval(st, e.X)
		case token.AND:
			return ex.addrOf(st, e.X)
		}
	case *ast.StarExpr:
		p := ex.eval(st, e.X)
		return ex.deref(st, p, e)
	case *ast.BinaryExpr:
		return ex.evalBinary(st, e)
	case *ast.SelectorExpr:
		return ex.evalSelector(st, e)
	case *ast.IndexExpr:
		base := ex.eval(st, e.X)
		idx := ex.eval(st, e.Index)
		return ex.indexVal(st, base, idx, e)
	case *ast.SliceExpr:
		return ex.evalSlice(st, e)
	case *ast.CallExpr:
		return ex.evalCall(st, e)
	case *ast.CompositeLit:
		return ex.evalComposite(st, e)
	case *ast.FuncLit:
		return &Val{Fn: e, GoT: ex.info.TypeOf(e), T: intLit(1), Mag: -1}
	case *ast.TypeAssertExpr:
		x := ex.eval(st, e.X)
		tt := ex.info.TypeOf(e.Type)
		ex.safeN++
		if it, ok := tt.Underlying().(*types.Interface); ok {
			// assertion to an interface type: the value is non-nil and its dynamic type is one of the module's implementers
			goal := tFalse
			for _, impl := range ex.w.implementers(it) {
				goal = tOr(goal, tEq(dynType(x.T), ex.w.typeTag(impl)))
			}
			ex.oblige(st, "safe", fmt.Sprintf("safe.typeassert.%d", ex.safeN), tAnd(tNot(tEq(x.T, intLit(0))), goal), ex.pos(e)+": type assertion to interface must succeed")
			return tv(x.T, tt)
		}
		ex.oblige(st, "safe", fmt.Sprintf("safe.typeassert.%d", ex.safeN), tEq(dynType(x.T), ex.w.typeTag(tt)), ex.pos(e)+": type assertion must succeed")
		return ex.unbox(x, tt)
	}
	panic(unsupported(fmt.Sprintf("expression %T at %s", e, ex.pos(e))))
}

func dynType(ref *Term) *Term { return mk("dyntype", SInt, ref) }

// unbox converts an interface value to the concrete type tt.
func (ex *Exec) unbox(x *Val, tt types.Type) *Val {
	s := ex.w.sortOf(tt)
	if s.Eq(SRef) {
		return tv(x.T, tt)
	}
	return tv(mk("unbox_"+mangle(s.String()), s, x.T), tt)
}

// box converts a concrete value to an interface value
func (ex *Exec) box(st *State, x *Val, from types.Type) *Val {
	if _, isIface := from.Underlying().(*types.Interface); isIface {
		return x
	}
	s := ex.w.sortOf(from)
	if s.Eq(SRef) {
		// pointer: same ref; dynamic type known when non-nil
		if x.T.Op != "0" {
			ex.assume(st, tImp(tNot(tEq(x.T, intLit(0))), tEq(dynType(x.T), ex.w.typeTag(from))))
		}
		return tv(x.T, from)
	}
	ex.w.boxTags[mangle(s.String())] = ex.w.typeTag(from)
	r := mk("box_"+mangle(s.String()), SRef, x.T)
	ex.assume(st, tAnd(tEq(dynType(r), ex.w.typeTag(from)), tNot(tEq(r, intLit(0))), tEq(mk("unbox_"+mangle(s.String()), s, r), x.T)))
	return tv(r, from)
}

func (ex *Exec) addrOf(st *State, e ast.Expr) *Val {
	switch x := e.(type) {
	case *ast.ParenExpr:
		return ex.addrOf(st, x.X)
	case *ast.Ident:
		obj := ex.info.ObjectOf(x)
		if ex.w.isRefStruct(obj.Type()) {
			v := ex.lookupVar(st, obj)
			return tv(v.T, types.NewPointer(obj.Type()))
		}
		return &Val{Loc: obj, T: intLit(1), GoT: types.NewPointer(obj.Type()), Mag: -1}
	case *ast.SelectorExpr:
		// &x.f with f a struct-typed field: the sub-object
		if t := ex.info.TypeOf(x); ex.w.isRefStruct(t) {
			v := ex.eval(st, x)
			return tv(v.T, types.NewPointer(t))
		}
		// &x.f with f a scalar / pointer field: a cell inside the object
		if hb, rest, ok := ex.heapLoc(st, x); ok && len(rest) == 0 {
			b := hb
			return &Val{LocHeap: &b, T: intLit(1), GoT: types.NewPointer(ex.info.TypeOf(x)), Mag: -1}
		}
	case *ast.IndexExpr:
		if t := ex.info.TypeOf(x); ex.w.isRefStruct(t) {
			v := ex.eval(st, x)
			return tv(v.T, types.NewPointer(t))
		}
	case *ast.CompositeLit:
		v := ex.evalComposite(st, x)
		if ex.w.isRefStruct(v.GoT) {
			return tv(v.T, types.NewPointer(v.GoT))
		}
		// pointer to a value struct: fresh cell object holding the fields
		named := namedOf(v.GoT)
		if named != nil {
			r := ex.allocObj(st, named)
			stt := named.Underlying().(*types.Struct)
			for i := 0; i < stt.NumFields(); i++ {
				f := stt.Field(i)
				ex.setField(st, r, named, f, tv(tField(v.T, f.Name()), f.Type()), ex.pos(e))
			}
			return tv(r, types.NewPointer(v.GoT))
		}
	}
	panic(unsupported("address-of " + ex.pos(e)))
}

func (ex *Exec) deref(st *State, p *Val, at ast.Node) *Val {
	if p.Loc != nil {
		return ex.lookupVar(st, p.Loc)
	}
	if p.LocHeap != nil {
		return ex.fieldVal(st, p.LocHeap.ref, p.LocHeap.owner, p.LocHeap.field)
	}
	pt, ok := p.GoT.Underlying().(*types.Pointer)
	if !ok {
		panic(unsupported("deref of non-pointer"))
	}
	if id, ok := at.(*ast.StarExpr); ok {
		if ident, ok := id.X.(*ast.Ident); ok {
			obj := ex.info.ObjectOf(ident)
			if cell, ok := st.ghost["*"+obj.Name()]; ok {
				return cell
			}
		}
	}
	if named := namedOf(pt.Elem()); named != nil {
		if _, ok := named.Underlying().(*types.Struct); ok {
			ex.nonNil(st, p.T, ex.pos(at))
			if ex.w.isRefStruct(named) {
				return tv(p.T, pt.Elem())
			}
			return ex.loadDT(st, p.T, named)
		}
	}
	panic(unsupported("deref " + ex.pos(at)))
}

// loadDT reads a value struct stored behind a pointer.
func (ex *Exec) loadDT(st *State, ref *Term, named *types.Named) *Val {
	stt := named.Underlying().(*types.Struct)
	s := ex.w.sortOf(named)
	args := make([]*Term, stt.NumFields())
	for i := 0; i < stt.NumFields(); i++ {
		args[i] = ex.fieldVal(st, ref, named, stt.Field(i)).T
	}
	return tv(tMkDT(s, args...), named)
}

func (ex *Exec) nonNil(st *State, ref *Term, where string) {
	if ref.Op != "0" && strings.HasPrefix(ref.Op, "new_") {
		return
	}
	ex.safeN++
	ex.oblige(st, "safe", fmt.Sprintf("safe.nil.%d", ex.safeN), tNot(tEq(ref, intLit(0))), where+": nil dereference")
}

func (ex *Exec) evalSelector(st *State, e *ast.SelectorExpr) *Val {
	sel, ok := ex.info.Selections[e]
	if !ok {
		// qualified identifier pkg.Name
		obj := ex.info.ObjectOf(e.Sel)
		return ex.lookupVar(st, obj)
	}
	if sel.Kind() != types.FieldVal {
		panic(unsupported("method value " + ex.pos(e)))
	}
	base := ex.eval(st, e.X)
	return ex.selectPath(st, base, ex.info.TypeOf(e.X), sel.Index(), e)
}

// selectPath follows a field index path (with implicit embedded fields and derefs).
func (ex *Exec) selectPath(st *State, base *Val, bt types.Type, path []int, at ast.Node) *Val {
	cur := base
	ct := bt
	for _, idx := range path {
		if pt, ok := ct.Underlying().(*types.Pointer); ok {
			named := namedOf(pt.Elem())
			stt := named.Underlying().(*types.Struct)
			f := stt.Field(idx)
			if cur.Loc != nil {
				lv := ex.lookupVar(st, cur.Loc)
				cur = tv(tField(lv.T, f.Name()), f.Type())
			} else {
				ex.nonNil(st, cur.T, ex.pos(at))
				cur = ex.fieldVal(st, cur.T, named, f)
			}
			ct = f.Type()
			continue
		}
		if ex.w.isRefStruct(ct) {
			named := namedOf(ct)
			f := named.Underlying().(*types.Struct).Field(idx)
			cur = ex.fieldVal(st, cur.T, named, f)
			ct = f.Type()
			continue
		}
		stt, ok := ct.Underlying().(*types.Struct)
		if !ok {
			panic(unsupported("select on " + ct.String()))
		}
		f := stt.Field(idx)
		if cur.T.S.Kind == KUnint {
			// field of an opaque value of a dependency's struct type: an uninterpreted function of the value
			r := tv(mk("fld_"+cur.T.S.Name+"_"+f.Name(), ex.w.sortOf(f.Type()), cur.T), f.Type())
			if isIntType(f.Type()) {
				ex.assume(st, ex.intRange(r.T, f.Type()))
			}
			cur = r
			ct = f.Type()
			continue
		}
		m := cur.Mag
		cur = tv(tField(cur.T, f.Name()), f.Type())
		if isFloat(f.Type()) {
			cur.Mag = m
		} else if _, ok := f.Type().Underlying().(*types.Struct); ok {
			cur.Mag = m
		}
		ct = f.Type()
	}
	return cur
}

func isStructNamed(t types.Type) bool {
	n, ok := t.(*types.Named)
	if !ok {
		return false
	}
	_, ok = n.Underlying().(*types.Struct)
	return ok
}

// readFacts: domain facts for values read from memory (exact mode)
func (ex *Exec) readFacts(v *Val) *Term {
	if ex.arith != "exact" {
		return tTrue
	}
	if v.T.S.Kind == KReal || (v.T.S.Kind == KDT && !v.T.S.IsSlice) {
		v.Mag = 20
		return ex.domainFacts(v.T, v.GoT)
	}
	return tTrue
}

func (ex *Exec) sliceLen(t *Term) *Term { return tField(t, "len") }

func (ex *Exec) indexVal(st *State, base, idx *Val, at ast.Node) *Val {
	where := ex.pos(at)
	idxT := idx.T
	if base.ArrField != nil {
		arr := base.ArrField.Type().Underlying().(*types.Array)
		ex.boundsCheck(st, idxT, intLit(arr.Len()), where)
		er := elemRefTerm(base.T, base.ArrOwner, base.ArrField, idxT)
		// an element of an array field is part of its (non-nil) owner: its address is not nil and has the element's pointer type
		ex.assume(st, tImp(tNot(tEq(base.T, intLit(0))), tNot(tEq(er, intLit(0)))))
		ex.assume(st, ex.ptrTypeFact(er, types.NewPointer(arr.Elem())))
		return tv(er, arr.Elem())
	}
	var elemT types.Type
	if base.GoT != nil {
		switch u := base.GoT.Underlying().(type) {
		case *types.Slice:
			elemT = u.Elem()
		case *types.Array:
			elemT = u.Elem()
			ex.safeN++
			ex.oblige(st, "safe", fmt.Sprintf("safe.index.%d", ex.safeN), tAnd(mk("<=", SBool, intLit(0), idxT), mk("<", SBool, idxT, intLit(u.Len()))), where+": array index in range")
			r := tv(tSelect(base.T, idxT), elemT)
			r.Mag = base.Mag
			return r
		}
	}
	if base.T.S.Kind == KUnint && base.T.S.Name == "Str" {
		ex.safeN++
		ex.oblige(st, "safe", fmt.Sprintf("safe.index.%d", ex.safeN), tAnd(mk("<=", SBool, intLit(0), idxT), mk("<", SBool, idxT, mk("strlen", SInt, base.T))), where+": string index in range")
		b := mk("strAt", SInt, base.T, idxT)
		ex.assume(st, tAnd(mk("<=", SBool, intLit(0), b), mk("<=", SBool, b, intLit(255))))
		return tv(b, types.Typ[types.Uint8])
	}
	if base.T.S.IsSlice {
		ex.safeN++
		ex.oblige(st, "safe", fmt.Sprintf("safe.index.%d", ex.safeN), tAnd(mk("<=", SBool, intLit(0), idxT), mk("<", SBool, idxT, ex.sliceLen(base.T))), where+": slice index in range")
		r := tv(tSelect(tField(base.T, "arr"), mk("+", SInt, tField(base.T, "off"), idxT)), elemT)
		ex.assume(st, ex.readFacts(r))
		if elemT != nil && isIntType(elemT) {
			ex.assume(st, ex.intRange(r.T, elemT))
		}
		return r
	}
	panic(unsupported("index " + where))
}

func (ex *Exec) intRange(t *Term, gt types.Type) *Term {
	b, ok := gt.Underlying().(*types.Basic)
	if !ok {
		return tTrue
	}
	var lo, hi string
	switch b.Kind() {
	case types.Uint8:
		lo, hi = "0", "255"
	case types.Uint16:
		lo, hi = "0", "65535"
	case types.Uint32:
		lo, hi = "0", "4294967295"
	default:
		return tTrue
	}
	return tAnd(mk("<=", SBool, cnst(lo, SInt), t), mk("<=", SBool, t, cnst(hi, SInt)))
}

func (ex *Exec) evalSlice(st *State, e *ast.SliceExpr) *Val {
	base := ex.eval(st, e.X)
	where := ex.pos(e)
	if _, isArr := ex.info.TypeOf(e.X).Underlying().(*types.Array); isArr {
		arr := ex.info.TypeOf(e.X).Underlying().(*types.Array)
		if e.Low == nil && e.High == nil {
			s := ex.w.Reg.slice(ex.w.sortOf(arr.Elem()))
			return tv(tMkDT(s, base.T, intLit(0), intLit(arr.Len())), types.NewSlice(arr.Elem()))
		}
		panic(unsupported("array slicing " + where))
	}
	if base.T.S.Kind == KUnint && base.T.S.Name == "Str" {
		ln := mk("strlen", SInt, base.T)
		lo := intLit(0)
		if e.Low != nil {
			lo = ex.eval(st, e.Low).T
		}
		hi := ln
		if e.High != nil {
			hi = ex.eval(st, e.High).T
		}
		ex.safeN++
		ex.oblige(st, "safe", fmt.Sprintf("safe.slice.%d", ex.safeN), tAnd(mk("<=", SBool, intLit(0), lo), mk("<=", SBool, lo, hi), mk("<=", SBool, hi, ln)), where+": string slice bounds")
		r := mk("strSub", base.T.S, base.T, lo, hi)
		ex.assume(st, tEq(mk("strlen", SInt, r), mk("-", SInt, hi, lo)))
		return tv(r, base.GoT)
	}
	if !base.T.S.IsSlice {
		panic(unsupported("slicing " + where))
	}
	lo := intLit(0)
	if e.Low != nil {
		lo = ex.eval(st, e.Low).T
	}
	hi := ex.sliceLen(base.T)
	if e.High != nil {
		hi = ex.eval(st, e.High).T
	}
	// bounds: 0 <= lo <= hi <= cap; we conservatively require hi <= len unless Max given (cap unknown)
	ex.safeN++
	ex.oblige(st, "safe", fmt.Sprintf("safe.slice.%d", ex.safeN), tAnd(mk("<=", SBool, intLit(0), lo), mk("<=", SBool, lo, hi), mk("<=", SBool, hi, ex.sliceLen(base.T))), where+": slice bounds (high bound checked against len, stricter than cap)")
	r := tMkDT(base.T.S, tField(base.T, "arr"), mk("+", SInt, tField(base.T, "off"), lo), mk("-", SInt, hi, lo))
	return tv(r, base.GoT)
}

func (ex *Exec) evalComposite(st *State, e *ast.CompositeLit) *Val {
	t := ex.info.TypeOf(e)
	switch u := t.Underlying().(type) {
	case *types.Struct:
		if isExternalNamed(t) {
			if len(e.Elts) > 0 {
				panic(unsupported("non-empty literal of a dependency's struct type at " + ex.pos(e)))
			}
			return tv(ex.zeroTerm(t), t)
		}
		if ex.w.isRefStruct(t) {
			named := namedOf(t)
			r := ex.allocObj(st, named)
			for i, el := range e.Elts {
				if kv, ok := el.(*ast.KeyValueExpr); ok {
					name := kv.Key.(*ast.Ident).Name
					for j := 0; j < u.NumFields(); j++ {
						if u.Field(j).Name() == name {
							ex.setField(st, r, named, u.Field(j), ex.evalElt(st, kv.Value, u.Field(j).Type()), ex.pos(e))
						}
					}
				} else {
					ex.setField(st, r, named, u.Field(i), ex.evalElt(st, el, u.Field(i).Type()), ex.pos(e))
				}
			}
			return tv(r, t)
		}
		s := ex.w.sortOf(t)
		args := make([]*Term, u.NumFields())
		mag := 0.0
		setf := func(i int, v *Val) {
			v = ex.convertTo(st, v, u.Field(i).Type())
			args[i] = v.T
			if v.Mag < 0 {
				mag = -1
			} else if mag >= 0 && v.Mag > mag {
				mag = v.Mag
			}
		}
		for i, el := range e.Elts {
			if kv, ok := el.(*ast.KeyValueExpr); ok {
				name := kv.Key.(*ast.Ident).Name
				for j := 0; j < u.NumFields(); j++ {
					if u.Field(j).Name() == name {
						setf(j, ex.evalElt(st, kv.Value, u.Field(j).Type()))
					}
				}
			} else {
				setf(i, ex.evalElt(st, el, u.Field(i).Type()))
			}
		}
		for i := range args {
			if args[i] == nil {
				args[i] = ex.zeroTerm(u.Field(i).Type())
			}
		}
		r := tv(tMkDT(s, args...), t)
		r.Mag = mag
		return r
	case *types.Array:
		es := ex.w.sortOf(u.Elem())
		arr := ex.constArray(ex.zeroTerm(u.Elem()), es)
		mag := 0.0
		for i, el := range e.Elts {
			v := ex.evalElt(st, el, u.Elem())
			arr = tStore(arr, intLit(int64(i)), v.T)
			if v.Mag < 0 {
				mag = -1
			} else if mag >= 0 && v.Mag > mag {
				mag = v.Mag
			}
		}
		r := tv(ex.define("arrlit", arr), t)
		r.Mag = mag
		return r
	case *types.Slice:
		es := ex.w.sortOf(u.Elem())
		arr := ex.constArray(ex.zeroTerm(u.Elem()), es)
		for i, el := range e.Elts {
			v := ex.evalElt(st, el, u.Elem())
			arr = tStore(arr, intLit(int64(i)), v.T)
		}
		s := ex.w.Reg.slice(es)
		return tv(tMkDT(s, arr, intLit(0), intLit(int64(len(e.Elts)))), t)
	}
	panic(unsupported("composite literal " + ex.pos(e)))
}

func (ex *Exec) evalElt(st *State, el ast.Expr, t types.Type) *Val {
	if cl, ok := el.(*ast.CompositeLit); ok && cl.Type == nil {
		// elided type
		return ex.evalComposite(st, cl)
	}
	return ex.eval(st, el)
}

func (ex *Exec) constArray(def *Term, es *Sort) *Term {
	s := arraySort(SInt, es)
	if hasUnintZero(def) {
		// cvc5 accepts only values under (as const ..); the zero of an uninterpreted sort is a constant symbol, so the
		// all-zero array of such a sort is itself an unconstrained constant symbol (sound weakening: its elements are unknown)
		return cnst("zeroarr_"+mangle(s.String()), s)
	}
	return &Term{Op: "(as const " + s.String() + ")", Args: []*Term{def}, S: s}
}

func (ex *Exec) zeroTerm(t types.Type) *Term {
	s := ex.w.sortOf(t)
	return ex.zeroOfSort(s)
}

func (ex *Exec) zeroOfSort(s *Sort) *Term {
	switch s.Kind {
	case KBool:
		return tFalse
	case KInt:
		return intLit(0)
	case KReal:
		return realLit("0")
	case KDT:
		args := make([]*Term, len(s.Fields))
		for i, f := range s.Fields {
			args[i] = ex.zeroOfSort(f.S)
		}
		return tMkDT(s, args...)
	case KArray:
		return ex.constArray(ex.zeroOfSort(s.Elem), s.Elem)
	case KUnint:
		if s.Name == "Str" {
			return cnst("str_empty", s) // the zero value of a string is the empty string literal
		}
		return cnst("zero_"+s.Name, s)
	}
	panic("zero of " + s.String())
}

func (ex *Exec) convertTo(st *State, v *Val, to types.Type) *Val {
	if to == nil {
		return v
	}
	ts := ex.w.sortOf(to)
	if v.Fn != nil || v.Loc != nil || v.LocHeap != nil {
		return v
	}
	if v.T.S.Kind == KInt && ts.Kind == KReal {
		return ex.coerceNum(v, SReal)
	}
	if _, isIface := to.Underlying().(*types.Interface); isIface && v.GoT != nil {
		if _, already := v.GoT.Underlying().(*types.Interface); !already {
			if b, ok := v.GoT.(*types.Basic); ok && b.Kind() == types.UntypedNil {
				return v
			}
			return ex.box(st, v, v.GoT)
		}
	}
	return v
}

func (ex *Exec) evalBinary(st *State, e *ast.BinaryExpr) *Val {
	where := ex.pos(e)
	switch e.Op {
	case token.LAND:
		l := ex.eval(st, e.X)
		sub := st.clone()
		ex.assume(sub, l.T)
		r := ex.eval(sub, e.Y)
		ex.joinShortCircuit(st, sub, l.T)
		return tv(tAnd(l.T, r.T), types.Typ[types.Bool])
	case token.LOR:
		l := ex.eval(st, e.X)
		sub := st.clone()
		ex.assume(sub, tNot(l.T))
		r := ex.eval(sub, e.Y)
		ex.joinShortCircuit(st, sub, tNot(l.T))
		return tv(tOr(l.T, r.T), types.Typ[types.Bool])
	}
	l := ex.eval(st, e.X)
	r := ex.eval(st, e.Y)
	return ex.binop(st, e.Op.String(), l, r, ex.info.TypeOf(e.X), where)
}

// joinShortCircuit continues in st after the right operand of && / || was evaluated in sub (= st under cond).
// A pure right operand leaves the program state alone: only the facts learnt there are kept (as implications).
// A right operand with side effects (a call that modifies the heap, allocates, or advances an iteration protocol:
// `if match && !iter(seg, i) {`) changed variables / heap / ghost state in sub: st becomes the merge of sub (cond)
// and the untouched state (not cond), exactly as for an if statement.
func (ex *Exec) joinShortCircuit(st, sub *State, cond *Term) {
	changed := false
	for k, v := range sub.vars {
		if w, ok := st.vars[k]; !ok || w != v {
			changed = true
			break
		}
	}
	if !changed {
		for k, v := range sub.ghost {
			if w, ok := st.ghost[k]; !ok || w != v {
				changed = true
				break
			}
		}
	}
	if !changed {
		ex.absorb(st, sub, cond)
		return
	}
	other := st.clone()
	ex.assume(other, tNot(cond))
	m := ex.merge([]*State{sub, other})
	if m == nil {
		st.guard = tFalse
		return
	}
	*st = *m
}

// absorb facts assumed in sub (under cond) back into st as implications.
func (ex *Exec) absorb(st, sub *State, cond *Term) {
	// sub.guard = st.guard ∧ cond ∧ extra ; keep (cond => extra)
	if sub.guard == st.guard {
		return
	}
	extra := diffGuard(st.guard, sub.guard, cond)
	if extra != nil {
		ex.assume(st, tImp(cond, extra))
	}
}

func diffGuard(base, sub, cond *Term) *Term {
	var baseArgs []*Term
	if base.Op == "and" {
		baseArgs = base.Args
	} else if !base.isTrue() {
		baseArgs = []*Term{base}
	}
	var subArgs []*Term
	if sub.Op == "and" {
		subArgs = sub.Args
	} else {
		subArgs = []*Term{sub}
	}
	if len(subArgs) < len(baseArgs) {
		return nil
	}
	for i := range baseArgs {
		if subArgs[i] != baseArgs[i] {
			return nil
		}
	}
	var extra []*Term
	for _, a := range subArgs[len(baseArgs):] {
		if a == cond {
			continue
		}
		extra = append(extra, a)
	}
	if len(extra) == 0 {
		return nil
	}
	return tAnd(extra...)
}

func (ex *Exec) binop(st *State, op string, l, r *Val, lt types.Type, where string) *Val {
	boolT := types.Typ[types.Bool]
	// unify numeric sorts
	if l.T.S.Kind == KReal || r.T.S.Kind == KReal {
		l, r = ex.coerceNum(l, SReal), ex.coerceNum(r, SReal)
	}
	switch op {
	case "==", "!=":
		var eq *Term
		if l.T.S.IsSlice != r.T.S.IsSlice && (l.T.S.IsSlice || r.T.S.IsSlice) {
			// slice == nil: nil-ness of a slice is not part of the slice model; it is an uninterpreted predicate that
			// implies length 0 (sound: every nil slice is empty, an empty slice may or may not be nil)
			sl := l
			if r.T.S.IsSlice {
				sl = r
			}
			isnil := mk("isnil_"+sl.T.S.Name, SBool, sl.T)
			ex.assume(st, tImp(isnil, tEq(ex.sliceLen(sl.T), intLit(0))))
			if op == "!=" {
				isnil = tNot(isnil)
			}
			return tv(isnil, boolT)
		}
		if l.T.S.Kind == KReal {
			eq = cmpCls("=", l, r)
		} else {
			eq = tEq(l.T, r.T)
		}
		if op == "!=" {
			eq = tNot(eq)
		}
		return tv(eq, boolT)
	case "<", "<=", ">", ">=":
		if l.T.S.Kind == KReal {
			return tv(cmpCls(op, l, r), boolT)
		}
		return tv(mk(op, SBool, l.T, r.T), boolT)
	case "+", "-", "*", "/", "%":
		if l.T.S.Kind == KReal {
			if op == "%" {
				panic(unsupported("float %"))
			}
			return ex.floatArith(st, op, l, r, where)
		}
		// integers (mathematical; sized types get range obligations at conversion/assignment)
		var t *Term
		switch op {
		case "/":
			ex.safeN++
			ex.oblige(st, "safe", fmt.Sprintf("safe.divzero.%d", ex.safeN), tNot(tEq(r.T, intLit(0))), where+": integer division by zero")
			t = mk("div", SInt, l.T, r.T) // operands non-negative in this code base; noted
		case "%":
			ex.safeN++
			ex.oblige(st, "safe", fmt.Sprintf("safe.divzero.%d", ex.safeN), tNot(tEq(r.T, intLit(0))), where+": integer modulo by zero")
			t = mk("mod", SInt, l.T, r.T)
		default:
			t = mk(op, SInt, l.T, r.T)
		}
		res := tv(t, lt)
		if l.GoT != nil && !l.Lit {
			res.GoT = l.GoT
		} else if r.GoT != nil {
			res.GoT = r.GoT
		}
		ex.checkIntRange(st, res, where)
		return res
	case "&", "|", "^", "<<", ">>", "&^":
		panic(unsupported("bit operation " + op + " at " + where))
	}
	panic(unsupported("binary " + op))
}

// checkIntRange emits a range obligation for sized unsigned/small integer types.
func (ex *Exec) checkIntRange(st *State, v *Val, where string) {
	if v.GoT == nil {
		return
	}
	r := ex.intRange(v.T, v.GoT)
	if r.isTrue() {
		return
	}
	ex.safeN++
	ex.oblige(st, "safe", fmt.Sprintf("safe.range.%d", ex.safeN), r, where+": result stays in range of "+v.GoT.String()+" (no wrap-around)")
}

// ---------------------------------------------------------------- statements

func (ex *Exec) execBlock(st *State, stmts []ast.Stmt) *Flow {
	fl := &Flow{normal: st}
	for _, s := range stmts {
		if fl.normal == nil {
			break
		}
		f2 := ex.execStmt(fl.normal, s)
		fl.normal = f2.normal
		fl.breaks = append(fl.breaks, f2.breaks...)
		fl.continues = append(fl.continues, f2.continues...)
	}
	return fl
}

// dropScoped removes the locals declared inside the compound statement s from a state that has left it: a name in a
// contract always denotes the variable that is in scope at that program point, never a shadowing one of a finished
// inner block (`j` of the outer loop vs `for j := ...` of an inner loop in rRect.chooseLeastEnlargement).
func dropScoped(st *State, s ast.Stmt) {
	for obj := range st.vars {
		if obj.Pos() > s.Pos() && obj.Pos() < s.End() {
			if v, isVar := obj.(*types.Var); isVar && !v.IsField() {
				delete(st.vars, obj)
			}
		}
	}
}

func (ex *Exec) execStmt(st *State, s ast.Stmt) (fl *Flow) {
	switch s.(type) {
	case *ast.IfStmt, *ast.ForStmt, *ast.RangeStmt, *ast.SwitchStmt, *ast.TypeSwitchStmt, *ast.BlockStmt:
		defer func() {
			if fl != nil && fl.normal != nil {
				dropScoped(fl.normal, s)
			}
		}()
	}
	if ex.fc != nil && len(ex.fc.StmtHints) > 0 {
		if _, isBlock := s.(*ast.BlockStmt); !isBlock {
			p := ex.w.Fset.Position(s.Pos())
			for k := range ex.fc.StmtHints {
				h := &ex.fc.StmtHints[k]
				if !strings.HasSuffix(p.Filename, h.File) {
					continue
				}
				if h.Text != "" {
					if !strings.HasPrefix(strings.TrimSpace(ex.w.sourceLine(p.Filename, p.Line)), h.Text) {
						continue
					}
				} else if h.Line != p.Line {
					continue
				}
				// the outermost statement starting on the line takes the hint; nested statements on the same line do not repeat it
				if ex.stmtHintActive[k] > 0 {
					continue
				}
				h.used = true
				if h.Use != nil {
					ex.applyLemma(st, h.Use, nil)
				} else {
					g := ex.specBool(st, h.Assert.E, nil)
					ex.oblige(st, "assert", fmt.Sprintf("assert.stmt%d.%s", k, clauseName(h.Assert, k)), g, h.Assert.Src)
					ex.assume(st, g)
				}
				if ex.stmtHintActive == nil {
					ex.stmtHintActive = map[int]int{}
				}
				ex.stmtHintActive[k]++
				defer func(k int) { ex.stmtHintActive[k]-- }(k)
			}
		}
	}
	if ex.fc != nil && len(ex.fc.Skips) > 0 {
		defer func() {
			if r := recover(); r != nil {
				u, ok := r.(unsupportedErr)
				if !ok {
					panic(r)
				}
				p := ex.w.Fset.Position(s.Pos())
				pe := ex.w.Fset.Position(s.End())
				for k, sk := range ex.fc.Skips {
					var file string
					var line int
					if i := strings.LastIndex(sk, ":"); i > 0 {
						file = sk[:i]
						fmt.Sscan(sk[i+1:], &line)
					}
					if strings.HasSuffix(p.Filename, file) && p.Line <= line && line <= pe.Line {
						// the innermost statement containing the line handles it
						if _, isBlockish := s.(*ast.BlockStmt); isBlockish {
							break
						}
						ex.notes = append(ex.notes, fmt.Sprintf("PATH NOT VERIFIED at %s (%s): %s", sk, u.msg, ex.fc.SkipWhy[k]))
						ex.skippedPaths = append(ex.skippedPaths, sk+": "+ex.fc.SkipWhy[k])
						ex.assume(st, tFalse)
						fl = &Flow{normal: nil}
						return
					}
				}
				panic(r)
			}
		}()
	}
	switch s := s.(type) {
	case *ast.BlockStmt:
		return ex.execBlock(st, s.List)
	case *ast.ExprStmt:
		ex.eval(st, s.X)
		return &Flow{normal: st}
	case *ast.DeclStmt:
		gd := s.Decl.(*ast.GenDecl)
		for _, sp := range gd.Specs {
			vs, ok := sp.(*ast.ValueSpec)
			if !ok {
				continue
			}
			for i, name := range vs.Names {
				obj := ex.info.Defs[name]
				if obj == nil {
					continue
				}
				if i < len(vs.Values) {
					v := ex.eval(st, vs.Values[i])
					st.vars[obj] = ex.convertTo(st, v, obj.Type())
				} else if ex.w.isRefStruct(obj.Type()) {
					st.vars[obj] = tv(ex.allocObj(st, namedOf(obj.Type())), obj.Type())
				} else {
					z := tv(ex.zeroTerm(obj.Type()), obj.Type())
					z.Mag = 0
					st.vars[obj] = z
				}
			}
		}
		return &Flow{normal: st}
	case *ast.AssignStmt:
		ex.execAssign(st, s)
		return &Flow{normal: st}
	case *ast.IncDecStmt:
		op := "+"
		if s.Tok == token.DEC {
			op = "-"
		}
		cur := ex.eval(st, s.X)
		nv := ex.binop(st, op, cur, &Val{T: intLit(1), Lit: true, Mag: -1}, ex.info.TypeOf(s.X), ex.pos(s))
		ex.assignTo(st, s.X, nv)
		return &Flow{normal: st}
	case *ast.ReturnStmt:
		ex.execReturn(st, s)
		return &Flow{}
	case *ast.IfStmt:
		if s.Init != nil {
			ex.execStmt(st, s.Init)
		}
		c := ex.evalBool(st, s.Cond)
		st.guard = ex.define("g", st.guard)
		c = ex.define("c", c)
		thenSt := st.clone()
		ex.assume(thenSt, c)
		elseSt := st.clone()
		ex.assume(elseSt, tNot(c))
		f1 := ex.execBlock(thenSt, s.Body.List)
		var f2 *Flow
		if s.Else != nil {
			f2 = ex.execStmt(elseSt, s.Else)
		} else {
			f2 = &Flow{normal: elseSt}
		}
		out := &Flow{}
		out.breaks = append(f1.breaks, f2.breaks...)
		out.continues = append(f1.continues, f2.continues...)
		out.normal = ex.merge([]*State{f1.normal, f2.normal})
		return out
	case *ast.BranchStmt:
		switch s.Tok {
		case token.BREAK:
			if s.Label != nil {
				panic(unsupported("labelled break"))
			}
			return &Flow{breaks: []*State{st}}
		case token.CONTINUE:
			if s.Label != nil {
				panic(unsupported("labelled continue"))
			}
			return &Flow{continues: []*State{st}}
		}
		panic(unsupported("branch " + s.Tok.String()))
	case *ast.ForStmt:
		return ex.execFor(st, s)
	case *ast.RangeStmt:
		return ex.execRange(st, s)
	case *ast.SwitchStmt:
		return ex.execSwitch(st, s)
	case *ast.TypeSwitchStmt:
		return ex.execTypeSwitch(st, s)
	case *ast.EmptyStmt:
		return &Flow{normal: st}
	}
	panic(unsupported(fmt.Sprintf("statement %T at %s", s, ex.pos(s))))
}

// merge joins states from disjoint paths.
func (ex *Exec) merge(sts []*State) *State {
	var live []*State
	for _, s := range sts {
		if s != nil && !s.guard.isFalse() {
			live = append(live, s)
		}
	}
	if len(live) == 0 {
		return nil
	}
	if len(live) == 1 {
		return live[0]
	}
	res := live[0].clone()
	for _, s := range live[1:] {
		g2 := ex.define("g", s.guard)
		g1 := res.guard
		for obj, v1 := range res.vars {
			v2, ok := s.vars[obj]
			if !ok {
				delete(res.vars, obj)
				continue
			}
			res.vars[obj] = ex.mergeVal(obj.Name(), g2, v2, v1)
		}
		// heap entries absent from a state denote the entry heap constant
		for k, v := range s.ghost {
			if strings.HasPrefix(k, "H:") {
				if _, ok := res.ghost[k]; !ok {
					res.ghost[k] = tv(heapDefault(k, v.T.S), nil)
				}
			}
		}
		for k, v1 := range res.ghost {
			if v2, ok := s.ghost[k]; ok {
				res.ghost[k] = ex.mergeVal(sanitize(k), g2, v2, v1)
			} else if strings.HasPrefix(k, "H:") {
				res.ghost[k] = ex.mergeVal(sanitize(k), g2, tv(heapDefault(k, v1.T.S), nil), v1)
			}
		}
		res.guard = ex.define("g", tOr(g1, g2))
	}
	return res
}

func heapDefault(key string, s *Sort) *Term {
	name := strings.TrimPrefix(key, "H:")
	if name == "$alloc" {
		name = "H_alloc"
	}
	return cnst(name, s)
}

func (ex *Exec) mergeVal(name string, c *Term, a, b *Val) *Val {
	if a == b || (a.T == b.T && a.Cls == b.Cls && a.Loc == b.Loc) {
		return a
	}
	if a.Loc != nil || b.Loc != nil || a.Fn != nil || b.Fn != nil {
		if a.Loc == b.Loc && a.Fn == b.Fn {
			return a
		}
		panic(unsupported("merging pointer-to-local / closure values"))
	}
	r := &Val{GoT: a.GoT, Mag: -1, Inexact: a.Inexact || b.Inexact}
	r.T = ex.define(name, tIte(c, a.T, b.T))
	if a.Cls != nil || b.Cls != nil {
		ca, cb := a.Cls, b.Cls
		if ca == nil {
			ca = intLit(0)
		}
		if cb == nil {
			cb = intLit(0)
		}
		r.Cls = ex.define(name+"_cls", tIte(c, ca, cb))
	}
	if a.Mag >= 0 && b.Mag >= 0 {
		r.Mag = math.Max(a.Mag, b.Mag)
	}
	return r
}

func (ex *Exec) execAssign(st *State, s *ast.AssignStmt) {
	where := ex.pos(s)
	if s.Tok != token.ASSIGN && s.Tok != token.DEFINE {
		// op=
		op := strings.TrimSuffix(s.Tok.String(), "=")
		cur := ex.eval(st, s.Lhs[0])
		rhs := ex.eval(st, s.Rhs[0])
		nv := ex.binop(st, op, cur, rhs, ex.info.TypeOf(s.Lhs[0]), where)
		ex.assignTo(st, s.Lhs[0], nv)
		return
	}
	var vals []*Val
	if len(s.Rhs) == 1 && len(s.Lhs) > 1 {
		// tuple: call, type assertion with ok
		switch r := s.Rhs[0].(type) {
		case *ast.TypeAssertExpr:
			x := ex.eval(st, r.X)
			tt := ex.info.TypeOf(r.Type)
			ok := tAnd(tNot(tEq(x.T, intLit(0))), tEq(dynType(x.T), ex.w.typeTag(tt)))
			okT := ex.define("ok", ok)
			vals = []*Val{ex.unbox(x, tt), tv(okT, types.Typ[types.Bool])}
		default:
			v := ex.eval(st, s.Rhs[0])
			if v.Tuple == nil {
				panic(unsupported("tuple assignment from " + where))
			}
			vals = v.Tuple
		}
	} else {
		for _, r := range s.Rhs {
			vals = append(vals, ex.eval(st, r))
		}
	}
	for i, l := range s.Lhs {
		ex.assignTo(st, l, vals[i])
	}
}

func (ex *Exec) assignTo(st *State, lhs ast.Expr, v *Val) {
	if _, isIdent := lhs.(*ast.Ident); !isIdent {
		if ex.storeHeap(st, lhs, v) {
			return
		}
	}
	switch l := lhs.(type) {
	case *ast.Ident:
		if l.Name == "_" {
			return
		}
		obj := ex.info.ObjectOf(l)
		if ex.w.isRefStruct(obj.Type()) {
			if cur, ok := st.vars[obj]; ok && v.T != cur.T {
				// struct assignment copies into the variable's object
				ex.copyObj(st, cur.T, v.T, namedOf(obj.Type()), ex.pos(lhs))
				return
			}
			st.vars[obj] = tv(v.T, obj.Type())
			return
		}
		v = ex.convertTo(st, v, obj.Type())
		nv := *v
		nv.GoT = obj.Type()
		nv.Lit = false
		if isIntType(obj.Type()) {
			ex.checkIntRange(st, &nv, ex.pos(lhs))
		}
		st.vars[obj] = &nv
		return
	case *ast.ParenExpr:
		ex.assignTo(st, l.X, v)
		return
	case *ast.StarExpr:
		p := ex.eval(st, l.X)
		if p.Loc != nil {
			nv := *v
			nv.GoT = p.Loc.Type()
			st.vars[p.Loc] = &nv
			return
		}
		if ident, ok := l.X.(*ast.Ident); ok {
			obj := ex.info.ObjectOf(ident)
			if _, ok := st.ghost["*"+obj.Name()]; ok {
				nv := *v
				st.ghost["*"+obj.Name()] = &nv
				return
			}
		}
		panic(unsupported("store through pointer at " + ex.pos(lhs)))
	case *ast.SelectorExpr:
		// field of a local struct value: functional update
		root, path := ex.lvaluePath(l)
		if root != nil {
			obj := ex.info.ObjectOf(root)
			if _, isPtr := obj.Type().Underlying().(*types.Pointer); !isPtr {
				cur := ex.lookupVar(st, obj)
				nt := updatePath(cur.T, path, v.T, ex)
				nv := tv(nt, obj.Type())
				if cur.Mag >= 0 && v.Mag >= 0 {
					nv.Mag = math.Max(cur.Mag, v.Mag)
				}
				st.vars[obj] = nv
				return
			}
		}
		// field of an element of a fresh local slice of value structs: points[i].X = v
		if ix, ok := l.X.(*ast.IndexExpr); ok {
			if id, ok := ix.X.(*ast.Ident); ok {
				obj := ex.info.ObjectOf(id)
				if sl, isSlice := obj.Type().Underlying().(*types.Slice); isSlice && ex.w.isValueStruct(sl.Elem()) {
					cur := ex.lookupVar(st, obj)
					sel := ex.info.Selections[l]
					if cur.FreshSlice && sel != nil && len(sel.Index()) == 1 {
						idx := ex.eval(st, ix.Index)
						ex.boundsCheck(st, idx.T, ex.sliceLen(cur.T), ex.pos(lhs))
						arr := tField(cur.T, "arr")
						at := mk("+", SInt, tField(cur.T, "off"), idx.T)
						elt := tSelect(arr, at)
						fv := v.T
						ft := ex.w.sortOf(sel.Obj().Type())
						if fv.S.Kind == KInt && ft.Kind == KReal {
							fv = toReal(fv)
						}
						narr := tStore(arr, at, tWithField(elt, l.Sel.Name, fv))
						r := tv(tMkDT(cur.T.S, ex.define("arr", narr), tField(cur.T, "off"), tField(cur.T, "len")), obj.Type())
						r.FreshSlice = true
						st.vars[obj] = r
						return
					}
				}
			}
		}
		panic(unsupported("heap store at " + ex.pos(lhs)))
	case *ast.IndexExpr:
		if id, ok := l.X.(*ast.Ident); ok {
			obj := ex.info.ObjectOf(id)
			if _, isSlice := obj.Type().Underlying().(*types.Slice); isSlice {
				cur := ex.lookupVar(st, obj)
				if cur.FreshSlice {
					idx := ex.eval(st, l.Index)
					ex.boundsCheck(st, idx.T, ex.sliceLen(cur.T), ex.pos(lhs))
					arr := tField(cur.T, "arr")
					nv := ex.convertTo(st, v, obj.Type().Underlying().(*types.Slice).Elem())
					narr := tStore(arr, mk("+", SInt, tField(cur.T, "off"), idx.T), coerceTo(nv, arr.S.Elem))
					r := tv(tMkDT(cur.T.S, ex.define("arr", narr), tField(cur.T, "off"), tField(cur.T, "len")), obj.Type())
					r.FreshSlice = true
					st.vars[obj] = r
					return
				}
				panic(unsupported("store into a slice that is not a fresh local at " + ex.pos(lhs)))
			}
			if _, isArr := obj.Type().Underlying().(*types.Array); isArr {
				cur := ex.lookupVar(st, obj)
				idx := ex.eval(st, l.Index)
				arrT := obj.Type().Underlying().(*types.Array)
				ex.safeN++
				ex.oblige(st, "safe", fmt.Sprintf("safe.index.%d", ex.safeN), tAnd(mk("<=", SBool, intLit(0), idx.T), mk("<", SBool, idx.T, intLit(arrT.Len()))), ex.pos(lhs)+": array index in range")
				st.vars[obj] = tv(tStore(cur.T, idx.T, v.T), obj.Type())
				return
			}
		}
		panic(unsupported("indexed store at " + ex.pos(lhs)))
	}
	panic(unsupported(fmt.Sprintf("assignment target %T at %s", lhs, ex.pos(lhs))))
}

func (ex *Exec) lvaluePath(e ast.Expr) (*ast.Ident, []string) {
	switch x := e.(type) {
	case *ast.Ident:
		return x, nil
	case *ast.SelectorExpr:
		root, p := ex.lvaluePath(x.X)
		if root == nil {
			return nil, nil
		}
		sel := ex.info.Selections[x]
		if sel == nil || len(sel.Index()) != 1 {
			return nil, nil
		}
		return root, append(p, x.Sel.Name)
	case *ast.ParenExpr:
		return ex.lvaluePath(x.X)
	}
	return nil, nil
}

func updatePath(t *Term, path []string, v *Term, ex *Exec) *Term {
	if len(path) == 0 {
		if v.S.Kind == KInt && t.S.Kind == KReal {
			return toReal(v)
		}
		return v
	}
	inner := updatePath(tField(t, path[0]), path[1:], v, ex)
	return tWithField(t, path[0], inner)
}

// ---------------------------------------------------------------- switch

func (ex *Exec) execSwitch(st *State, s *ast.SwitchStmt) *Flow {
	if s.Init != nil {
		ex.execStmt(st, s.Init)
	}
	var tag *Val
	if s.Tag != nil {
		tag = ex.eval(st, s.Tag)
	}
	out := &Flow{}
	var exits []*State
	notPrev := tTrue
	var def *ast.CaseClause
	for _, c := range s.Body.List {
		cc := c.(*ast.CaseClause)
		if cc.List == nil {
			def = cc
			continue
		}
		var conds []*Term
		for _, e := range cc.List {
			v := ex.eval(st, e)
			if tag != nil {
				conds = append(conds, ex.binop(st, "==", tag, v, nil, ex.pos(e)).T)
			} else {
				conds = append(conds, v.T)
			}
		}
		cond := tOr(conds...)
		cs := st.clone()
		ex.assume(cs, tAnd(notPrev, cond))
		ex.coverPoint(cs, "case", ex.pos(cc))
		f := ex.execBlock(cs, cc.Body)
		exits = append(exits, f.normal)
		exits = append(exits, f.breaks...) // break inside switch leaves the switch
		out.continues = append(out.continues, f.continues...)
		notPrev = tAnd(notPrev, tNot(cond))
	}
	ds := st.clone()
	ex.assume(ds, notPrev)
	if def != nil {
		f := ex.execBlock(ds, def.Body)
		exits = append(exits, f.normal)
		exits = append(exits, f.breaks...)
		out.continues = append(out.continues, f.continues...)
	} else {
		exits = append(exits, ds)
	}
	out.normal = ex.merge(exits)
	return out
}

func (ex *Exec) execTypeSwitch(st *State, s *ast.TypeSwitchStmt) *Flow {
	if s.Init != nil {
		ex.execStmt(st, s.Init)
	}
	var x *Val
	switch a := s.Assign.(type) {
	case *ast.AssignStmt:
		x = ex.eval(st, a.Rhs[0].(*ast.TypeAssertExpr).X)
	case *ast.ExprStmt:
		x = ex.eval(st, a.X.(*ast.TypeAssertExpr).X)
	}
	out := &Flow{}
	var exits []*State
	notPrev := tTrue
	var def *ast.CaseClause
	for _, c := range s.Body.List {
		cc := c.(*ast.CaseClause)
		if cc.List == nil {
			def = cc
			continue
		}
		var conds []*Term
		var single types.Type
		for _, e := range cc.List {
			tt := ex.info.TypeOf(e)
			if b, ok := tt.(*types.Basic); ok && b.Kind() == types.UntypedNil {
				conds = append(conds, tEq(x.T, intLit(0)))
				continue
			}
			if it, isIface := tt.Underlying().(*types.Interface); isIface {
				// case Iface: the dynamic type is one of the module's types that implement it
				var alts []*Term
				for _, pk := range ex.w.Pkgs {
					sc := pk.Types.Scope()
					for _, n := range sc.Names() {
						tn, ok := sc.Lookup(n).(*types.TypeName)
						if !ok || tn.IsAlias() {
							continue
						}
						if _, isI := tn.Type().Underlying().(*types.Interface); isI {
							continue
						}
						for _, cand := range []types.Type{tn.Type(), types.NewPointer(tn.Type())} {
							if types.Implements(cand, it) {
								alts = append(alts, tEq(dynType(x.T), ex.w.typeTag(cand)))
							}
						}
					}
				}
				sort.Slice(alts, func(i, j int) bool { return alts[i].String() < alts[j].String() })
				conds = append(conds, tAnd(tNot(tEq(x.T, intLit(0))), tOr(alts...)))
				continue
			}
			conds = append(conds, tAnd(tNot(tEq(x.T, intLit(0))), tEq(dynType(x.T), ex.w.typeTag(tt))))
			single = tt
		}
		cond := tOr(conds...)
		cs := st.clone()
		ex.assume(cs, tAnd(notPrev, cond))
		ex.coverPoint(cs, "case", ex.pos(cc))
		if obj := ex.info.Implicits[cc]; obj != nil {
			if len(cc.List) == 1 && single != nil {
				cs.vars[obj] = ex.unbox(x, single)
			} else {
				cs.vars[obj] = x
			}
		}
		f := ex.execBlock(cs, cc.Body)
		exits = append(exits, f.normal)
		exits = append(exits, f.breaks...)
		out.continues = append(out.continues, f.continues...)
		notPrev = tAnd(notPrev, tNot(cond))
	}
	ds := st.clone()
	ex.assume(ds, notPrev)
	if def != nil {
		if obj := ex.info.Implicits[def]; obj != nil {
			ds.vars[obj] = x
		}
		f := ex.execBlock(ds, def.Body)
		exits = append(exits, f.normal)
		exits = append(exits, f.breaks...)
		out.continues = append(out.continues, f.continues...)
	} else {
		exits = append(exits, ds)
	}
	out.normal = ex.merge(exits)
	return out
}

// ---------------------------------------------------------------- loops

// assignedVars collects local objects assigned anywhere in node (syntactic).
func (ex *Exec) assignedVars(n ast.Node) []types.Object {
	seen := map[types.Object]bool{}
	var out []types.Object
	add := func(e ast.Expr) {
		for {
			switch x := e.(type) {
			case *ast.Ident:
				if obj := ex.info.ObjectOf(x); obj != nil && !seen[obj] {
					if _, ok := obj.(*types.Var); ok {
						seen[obj] = true
						out = append(out, obj)
					}
				}
				return
			case *ast.SelectorExpr:
				if t := ex.info.TypeOf(x.X); t != nil {
					if _, isPtr := t.Underlying().(*types.Pointer); isPtr || ex.w.isRefStruct(t) {
						return // a store through a pointer / into an object: the variable itself is not assigned
					}
				}
				e = x.X
			case *ast.IndexExpr:
				if t := ex.info.TypeOf(x.X); t != nil {
					if _, isSlice := t.Underlying().(*types.Slice); isSlice {
						if id, ok := x.X.(*ast.Ident); !ok || id == nil {
							return
						}
					}
				}
				e = x.X
			case *ast.StarExpr:
				e = x.X
			case *ast.ParenExpr:
				e = x.X
			default:
				return
			}
		}
	}
	ast.Inspect(n, func(n ast.Node) bool {
		switch s := n.(type) {
		case *ast.AssignStmt:
			for _, l := range s.Lhs {
				add(l)
			}
		case *ast.IncDecStmt:
			add(s.X)
		case *ast.UnaryExpr:
			if s.Op == token.AND {
				add(s.X) // address taken: may be modified by callee
			}
		case *ast.RangeStmt:
			if s.Key != nil {
				add(s.Key)
			}
			if s.Value != nil {
				add(s.Value)
			}
		}
		return true
	})
	sort.Slice(out, func(i, j int) bool { return out[i].Pos() < out[j].Pos() })
	return out
}

func (ex *Exec) loopSpec(n int) *LoopSpec {
	if ls := ex.loopOverride[n]; ls != nil {
		return ls
	}
	if ex.fc != nil {
		if ls := ex.fc.Loops[n]; ls != nil {
			return ls
		}
	}
	return &LoopSpec{}
}

// autoCountedLoop: a canonical counted loop `for i := 0; i < B; i++ { ... }` (i not assigned in the body) whose contract has
// no `decreases` gets the range invariant and the measure a range loop has implicitly - both as PROVED obligations
// (`inv.loopN.*.AutoRange`, `dec.loopN`), so a bound that changes inside the body still fails. Loops with a `decreases`
// clause are left exactly as written.
func (ex *Exec) autoCountedLoop(st *State, n int, s *ast.ForStmt, idx types.Object) {
	if idx == nil || s.Cond == nil || s.Post == nil {
		return
	}
	ls := ex.loopSpec(n)
	if ls.Decreases != nil {
		return
	}
	as, ok := s.Init.(*ast.AssignStmt)
	if !ok || len(as.Rhs) != 1 {
		return
	}
	if lit, ok := as.Rhs[0].(*ast.BasicLit); !ok || lit.Value != "0" {
		return
	}
	cond, ok := s.Cond.(*ast.BinaryExpr)
	if !ok || cond.Op != token.LSS {
		return
	}
	if id, ok := cond.X.(*ast.Ident); !ok || ex.info.Uses[id] != idx {
		return
	}
	inc, ok := s.Post.(*ast.IncDecStmt)
	if !ok || inc.Tok != token.INC {
		return
	}
	if id, ok := inc.X.(*ast.Ident); !ok || ex.info.Uses[id] != idx {
		return
	}
	if ex.assignsWhole(s.Body, idx) {
		return
	}
	var buf strings.Builder
	if err := printer.Fprint(&buf, ex.w.Fset, cond.Y); err != nil {
		return
	}
	b := buf.String()
	okSpec := func() (ok bool) {
		defer func() {
			if r := recover(); r != nil {
				ok = false
			}
		}()
		where := ex.pos(s) + " (auto)"
		inv := parseClause(fmt.Sprintf("AutoRange: 0 <= $i && ($i <= %s || $i == 0)", b), where)
		dec := parseExprText(fmt.Sprintf("(%s) - $i", b), where)
		bind := map[string]*Val{"$i": st.vars[idx]}
		probe := st.clone()
		ex.specBoolWith(probe, inv.E, bind)
		ex.specVal(probe, dec, bind)
		cp := *ls
		cp.Invariants = append(append([]*Clause{}, ls.Invariants...), inv)
		cp.Decreases = dec
		if ex.loopOverride == nil {
			ex.loopOverride = map[int]*LoopSpec{}
		}
		ex.loopOverride[n] = &cp
		return true
	}
	okSpec()
}

func (ex *Exec) execFor(st *State, s *ast.ForStmt) *Flow {
	n := ex.loopN
	ex.loopN++
	if s.Init != nil {
		ex.execStmt(st, s.Init)
	}
	// `for i := e; ...`: the variable declared by the init statement is also available to the loop's contract as $i
	// (the name range loops give their index), so that a contract survives a range <-> index-loop rewrite
	saved := ex.forIdx
	ex.forIdx = nil
	if as, ok := s.Init.(*ast.AssignStmt); ok && as.Tok == token.DEFINE && len(as.Lhs) == 1 {
		if id, ok := as.Lhs[0].(*ast.Ident); ok {
			if obj := ex.info.Defs[id]; obj != nil && isIntType(obj.Type()) {
				ex.forIdx = obj
			}
		}
	}
	idx := ex.forIdx
	defer func() { ex.forIdx = saved }()
	ex.autoCountedLoop(st, n, s, idx)
	var pre func(*State)
	if idx != nil {
		pre = func(b *State) { b.ghost["$i"] = b.vars[idx] }
	}
	return ex.execLoop(st, n, s, s.Cond, s.Body, s.Post, pre)
}

// execLoop: generic invariant-based loop rule.
//
//	pre: invariants hold on entry (inv.init)
//	havoc modified vars; assume invariants (+cond) ; run body; post; invariants hold (inv.preserve)
//	exit: havoc'd state with invariants and !cond, merged with break states
func (ex *Exec) execLoop(st *State, n int, node ast.Node, cond ast.Expr, body *ast.BlockStmt, post ast.Stmt, pre func(*State)) *Flow {
	ls := ex.loopSpec(n)
	loopIdx := ex.forIdx
	ex.forIdx = nil // consumed: nested loops set their own
	ex.loopIdxStack = append(ex.loopIdxStack, loopIdx)
	defer func() { ex.loopIdxStack = ex.loopIdxStack[:len(ex.loopIdxStack)-1] }()
	mod := ex.assignedVars(node)
	iterGhost := ex.iterState
	// 1. init
	for i, inv := range ls.Invariants {
		g := ex.specBoolWith(st, inv.E, ex.loopBind(st))
		ex.oblige(st, "inv.init", fmt.Sprintf("inv.loop%d.init.%s", n, clauseName(inv, i)), g, inv.Src)
	}
	// 2. havoc
	head := st.clone()
	for _, obj := range mod {
		if cur, ok := head.vars[obj]; ok && cur.Loc == nil && cur.Fn == nil {
			nv := tv(ex.fresh(obj.Name(), cur.T.S), cur.GoT)
			if isIntType(obj.Type()) {
				ex.assume(head, ex.intRange(nv.T, obj.Type()))
			}
			if cur.FreshSlice && !ex.assignsWhole(node, obj) {
				// only element stores in the loop: still the unshared slice made in this activation, same length
				nv.FreshSlice = true
				ex.assume(head, tEq(ex.sliceLen(nv.T), ex.sliceLen(cur.T)))
				ex.assume(head, tEq(tField(nv.T, "off"), tField(cur.T, "off")))
			}
			head.vars[obj] = nv
		}
	}
	if iterGhost {
		for _, k := range []string{"seen", "stopped"} {
			if cur, ok := head.ghost[k]; ok {
				head.ghost[k] = tv(ex.fresh(k, cur.T.S), nil)
			}
		}
	}
	for k, cur := range head.ghost {
		if strings.HasPrefix(k, "*") {
			head.ghost[k] = tv(ex.fresh("cell_"+k[1:], cur.T.S), cur.GoT)
		}
	}
	ex.havocHeap(head, node)
	oldUnfold := ex.curLoopUnfold
	ex.curLoopUnfold = ls.Unfold
	defer func() { ex.curLoopUnfold = oldUnfold }()
	for _, inv := range ls.Invariants {
		ex.assume(head, ex.specBoolWith(head, inv.E, ex.loopBind(head)))
	}
	var measure0 *Term
	if ls.Decreases != nil {
		measure0 = ex.specVal(head, ls.Decreases, ex.loopBind(head)).T
	}
	exitSt := head.clone()
	bodySt := head.clone()
	if cond != nil {
		c := ex.evalBool(bodySt, cond)
		ex.assume(bodySt, c)
		c2 := ex.evalBool(exitSt, cond)
		ex.assume(exitSt, tNot(c2))
	} else {
		exitSt = nil
	}
	if pre != nil {
		pre(bodySt)
	}
	ex.coverPoint(bodySt, "loopbody", ex.pos(node))
	for _, u := range ls.BeginUses {
		ex.applyLemma(bodySt, u, ex.loopBind(bodySt))
	}
	f := ex.loopBodyWithAsserts(bodySt, body.List, ls.Asserts, n, ex.loopBind)
	back := ex.merge(append([]*State{f.normal}, f.continues...))
	if back != nil {
		if post != nil {
			ex.execStmt(back, post)
		}
		for _, u := range ls.Uses {
			ex.applyLemma(back, u, ex.loopBind(back))
		}
		for i, inv := range ls.Invariants {
			g := ex.specBoolWith(back, inv.E, ex.loopBind(back))
			ex.oblige(back, "inv.preserve", fmt.Sprintf("inv.loop%d.preserve.%s", n, clauseName(inv, i)), g, inv.Src)
		}
		if measure0 != nil {
			m1 := ex.specVal(back, ls.Decreases, ex.loopBind(back)).T
			ex.oblige(back, "dec", fmt.Sprintf("dec.loop%d", n), tAnd(mk("<=", SBool, intLit(0), measure0), mk("<", SBool, m1, measure0)), "loop measure non-negative and strictly decreasing")
		} else {
			o := ex.oblige(back, "dec", fmt.Sprintf("dec.loop%d", n), tFalse, "loop has no decreases clause")
			o.Static = "no decreases clause"
		}
	}
	if exitSt != nil {
		for _, u := range ls.Uses {
			ex.applyLemma(exitSt, u, ex.loopBind(exitSt))
		}
	}
	out := &Flow{}
	out.normal = ex.merge(append([]*State{exitSt}, f.breaks...))
	return out
}

// loopBind: the extra spec names of the innermost classic for loop being processed ($i = its init variable)
func (ex *Exec) loopBind(st *State) map[string]*Val {
	if len(ex.loopIdxStack) == 0 {
		return nil
	}
	idx := ex.loopIdxStack[len(ex.loopIdxStack)-1]
	if idx == nil || st == nil {
		return nil
	}
	if v, ok := st.vars[idx]; ok {
		return map[string]*Val{"$i": v}
	}
	return nil
}

// loopBodyWithAsserts runs a loop body. The `loop N assert` hints are discharged at the start of the body; a hint that names a
// local which the body itself declares (`child := g.children[i]` after a range loop was rewritten into an index loop) is
// discharged right after the statement that declares it. A hint whose names never come into scope is an error, as before.
func (ex *Exec) loopBodyWithAsserts(bodySt *State, list []ast.Stmt, asserts []*Clause, n int, bind func(*State) map[string]*Val) *Flow {
	type pend struct {
		i   int
		a   *Clause
		err interface{}
	}
	var pending []pend
	try := func(st *State, i int, a *Clause) (err interface{}) {
		defer func() {
			if r := recover(); r != nil {
				if s, ok := r.(string); ok && strings.Contains(s, "unknown identifier") {
					err = r
					return
				}
				panic(r)
			}
		}()
		g := ex.specBoolWith(st, a.E, bind(st))
		ex.oblige(st, "assert", fmt.Sprintf("assert.loop%d.%s", n, clauseName(a, i)), g, a.Src)
		ex.assume(st, g)
		return nil
	}
	for i, a := range asserts {
		if err := try(bodySt, i, a); err != nil {
			pending = append(pending, pend{i, a, err})
		}
	}
	if len(pending) == 0 {
		return ex.execBlock(bodySt, list)
	}
	fl := &Flow{normal: bodySt}
	for _, s := range list {
		if fl.normal == nil {
			break
		}
		f2 := ex.execStmt(fl.normal, s)
		fl.normal = f2.normal
		fl.breaks = append(fl.breaks, f2.breaks...)
		fl.continues = append(fl.continues, f2.continues...)
		if fl.normal != nil && len(pending) > 0 {
			var still []pend
			for _, p := range pending {
				if err := try(fl.normal, p.i, p.a); err != nil {
					p.err = err
					still = append(still, p)
				}
			}
			pending = still
		}
	}
	if len(pending) > 0 {
		panic(pending[0].err)
	}
	return fl
}

func clauseName(c *Clause, i int) string {
	if c.Label != "" {
		return c.Label
	}
	return fmt.Sprint(i)
}

func (ex *Exec) execRange(st *State, s *ast.RangeStmt) *Flow {
	n := ex.loopN
	ex.loopN++
	coll := ex.eval(st, s.X)
	ct := ex.info.TypeOf(s.X)
	var length *Term
	switch u := ct.Underlying().(type) {
	case *types.Slice:
		length = ex.sliceLen(coll.T)
	case *types.Array:
		length = intLit(u.Len())
	default:
		panic(unsupported("range over " + ct.String()))
	}
	// hidden index variable: use key object if present, else synthetic
	var keyObj types.Object
	if id, ok := s.Key.(*ast.Ident); ok && id.Name != "_" {
		keyObj = ex.info.ObjectOf(id)
	}
	if keyObj == nil {
		keyObj = types.NewVar(s.Pos(), nil, fmt.Sprintf("$i%d", n), types.Typ[types.Int])
	}
	st.vars[keyObj] = tv(intLit(0), types.Typ[types.Int])
	ls := ex.loopSpec(n)
	mod := append(ex.assignedVars(s.Body), keyObj)
	_ = mod
	// implicit invariant 0 <= i <= len
	rangeInv := func(s *State) *Term {
		i := s.vars[keyObj].T
		return tAnd(mk("<=", SBool, intLit(0), i), mk("<=", SBool, i, length))
	}
	// emulate: for ; i < len; i++ { v := coll[i]; body }
	// init obligations
	for i, inv := range ls.Invariants {
		g := ex.specBoolWith(st, inv.E, map[string]*Val{"$i": st.vars[keyObj]})
		ex.oblige(st, "inv.init", fmt.Sprintf("inv.loop%d.init.%s", n, clauseName(inv, i)), g, inv.Src)
	}
	head := st.clone()
	for _, obj := range ex.assignedVars(s.Body) {
		if cur, ok := head.vars[obj]; ok && cur.Loc == nil && cur.Fn == nil {
			head.vars[obj] = tv(ex.fresh(obj.Name(), cur.T.S), cur.GoT)
		}
	}
	head.vars[keyObj] = tv(ex.fresh("i", SInt), types.Typ[types.Int])
	if ex.iterState {
		for _, k := range []string{"seen", "stopped"} {
			if cur, ok := head.ghost[k]; ok {
				head.ghost[k] = tv(ex.fresh(k, cur.T.S), nil)
			}
		}
	}
	for k, cur := range head.ghost {
		if strings.HasPrefix(k, "*") {
			head.ghost[k] = tv(ex.fresh("cell_"+k[1:], cur.T.S), cur.GoT)
		}
	}
	ex.havocHeap(head, s)
	ex.assume(head, rangeInv(head))
	for _, inv := range ls.Invariants {
		ex.assume(head, ex.specBoolWith(head, inv.E, map[string]*Val{"$i": head.vars[keyObj]}))
	}
	iT := head.vars[keyObj].T
	exitSt := head.clone()
	ex.assume(exitSt, tEq(iT, length))
	for _, u := range ls.Uses {
		ex.applyLemma(exitSt, u, map[string]*Val{"$i": head.vars[keyObj]})
	}
	bodySt := head.clone()
	ex.assume(bodySt, mk("<", SBool, iT, length))
	bodySt.ghost["$i"] = head.vars[keyObj]
	ex.coverPoint(bodySt, "loopbody", ex.pos(s))
	for _, u := range ls.BeginUses {
		ex.applyLemma(bodySt, u, map[string]*Val{"$i": head.vars[keyObj]})
	}
	if id, ok := s.Value.(*ast.Ident); ok && id.Name != "_" {
		vobj := ex.info.ObjectOf(id)
		var ev *Val
		switch u := ct.Underlying().(type) {
		case *types.Slice:
			ev = tv(tSelect(tField(coll.T, "arr"), mk("+", SInt, tField(coll.T, "off"), iT)), u.Elem())
			ex.assume(bodySt, ex.readFacts(ev))
		case *types.Array:
			ev = tv(tSelect(coll.T, iT), u.Elem())
			ev.Mag = coll.Mag
		}
		bodySt.vars[vobj] = ev
	}
	f := ex.loopBodyWithAsserts(bodySt, s.Body.List, ls.Asserts, n, func(b *State) map[string]*Val { return map[string]*Val{"$i": b.vars[keyObj]} })
	back := ex.merge(append([]*State{f.normal}, f.continues...))
	if back != nil {
		back.vars[keyObj] = tv(mk("+", SInt, iT, intLit(1)), types.Typ[types.Int])
		for _, u := range ls.Uses {
			ex.applyLemma(back, u, map[string]*Val{"$i": back.vars[keyObj]})
		}
		for i, inv := range ls.Invariants {
			g := ex.specBoolWith(back, inv.E, map[string]*Val{"$i": back.vars[keyObj]})
			ex.oblige(back, "inv.preserve", fmt.Sprintf("inv.loop%d.preserve.%s", n, clauseName(inv, i)), g, inv.Src)
		}
		// termination of range loops is structural (bounded by len)
	}
	out := &Flow{}
	out.normal = ex.merge(append([]*State{exitSt}, f.breaks...))
	return out
}

func hasUnintZero(t *Term) bool {
	if t == nil {
		return false
	}
	if len(t.Args) == 0 && strings.HasPrefix(t.Op, "zero_") {
		return true
	}
	for _, a := range t.Args {
		if hasUnintZero(a) {
			return true
		}
	}
	return false
}

// assignsWhole: is the variable itself (not an element / field of it) assigned somewhere in n?
func (ex *Exec) assignsWhole(n ast.Node, obj types.Object) bool {
	found := false
	ast.Inspect(n, func(x ast.Node) bool {
		switch s := x.(type) {
		case *ast.AssignStmt:
			for _, l := range s.Lhs {
				if id, ok := l.(*ast.Ident); ok && ex.info.ObjectOf(id) == obj {
					found = true
				}
			}
		case *ast.IncDecStmt:
			if id, ok := s.X.(*ast.Ident); ok && ex.info.ObjectOf(id) == obj {
				found = true
			}
		case *ast.RangeStmt:
			for _, e := range []ast.Expr{s.Key, s.Value} {
				if id, ok := e.(*ast.Ident); ok && ex.info.ObjectOf(id) == obj {
					found = true
				}
			}
		}
		return true
	})
	return found
}
