package main

import (
	"fmt"
	"go/ast"
	"sort"
	"strconv"
	"strings"
)

type Clause struct {
	Label string
	E     *SExpr
	Src   string
	Props []string // property ids this clause serves (empty = inherits from function)
}

type SpecFunc struct {
	Pkg       string
	Name      string
	Params    []SParam
	Ret       string
	Body      *SExpr // nil => uninterpreted
	Rec       bool
	MaxUnfold int  // own unfolding budget (rec N)
	Hidden    bool // recursive definition is only unfolded in obligations that `reveal` it
	Decreases *SExpr
	Opaque    bool
	Src       string
}

type Lemma struct {
	Pkg       string
	Name      string
	Params    []SParam
	Requires  []*Clause
	Ensures   []*Clause
	Induction string    // name of int parameter to induct on (>= base)
	Base      *SExpr    // base value expression (default 0)
	Uses      []*SExpr  // lemma applications available in the proof
	Reveal    []string  // hidden spec functions whose definitions this proof may unfold
	Haves     []*Clause // intermediate assertions: proved first (in order), then assumed
	Unfold    int       // unfolding depth for recursive functions
	TwoState  bool      // old(e) denotes e in a second, arbitrary heap (frame lemmas)
	Axiom     bool      // trusted, not proved
	Props     []string
	Src       string
}

type StmtHint struct {
	Where  string
	File   string
	Line   int
	Text   string // alternative anchor: the statement's first source line starts with this text
	Use    *SExpr
	Assert *Clause
	used   bool
}

type LoopSpec struct {
	Asserts    []*Clause // proved at the start of the loop body, then assumed (instantiation hints)
	Invariants []*Clause
	Decreases  *SExpr
	Uses       []*SExpr
	BeginUses  []*SExpr // lemma instances assumed at the start of the loop body
	Unfold     int
}

type CallSpec struct {
	At       *SExpr // ghost index of this callback call (overrides the protocol's `at`)
	Shift    *SExpr // forwarding call: caller index = callee index + shift
	IterInv  []*Clause
	IterStop []*Clause
	Uses     []*SExpr
	After    []*SExpr // lemma uses after call
}

type IterProto struct {
	Param  string // name of func-typed parameter
	IdxVar string // bound name for index in dom/match/args
	Dom    *SExpr
	Match  *SExpr
	Args   []*SExpr // expected argument values in terms of IdxVar (one per callback param)
	At     *SExpr   // ghost index of a callback call when the callback has no index parameter (evaluated at the call site, e.g. $i)
}

// RetLetText: witness bindings for the K-th return statement whose source line starts with Text
type RetLetText struct {
	Text string
	K    int
	Lets map[string]*SExpr
	Dead bool // the return site is expected to be unreachable under the precondition
	used bool
}

type FuncContract struct {
	Pkg          string
	Key          string // "Recv.Name" or "Name"
	Requires     []*Clause
	Ensures      []*Clause
	Loops        map[int]*LoopSpec
	Calls        map[int]*CallSpec
	Assigns      []string
	Pure         bool
	Trusted      bool // contract assumed, body not verified (reason required)
	TrustWhy     string
	Arith        string
	Props        []string
	ProtoTargets []string  // per ProtoUses entry: "ret2", "call8" or "" (all protocol obligations)
	ProtoUses    []*SExpr  // lemma instances for the iteration-protocol obligations; $j names the arbitrary index
	RetHaves     []*Clause // proved at every return site (in order), then assumed for the ensures clauses
	RetUses      []*SExpr
	EntryUses    []*SExpr
	Unfold       int
	Iter         *IterProto
	Decreases    *SExpr   // for recursive functions
	DecLex       []*SExpr // lexicographic measure (DecLex[0] == Decreases)
	Ghosts       []SParam
	Src          string
	NoSafety     bool
	RetLets      map[int]map[string]*SExpr
	RetLetsText  []RetLetText
	Placeholder  bool   // declared in an *_api_verif.go file: replaced by a contract of the same key elsewhere
	PureAs       string // the (deterministic, frame-free) result is this uninterpreted spec function of receiver and arguments
	Reveal       []string
	Only         []string   // when set: only obligations whose name (after #) has one of these prefixes are generated; the rest is reported as not covered
	Modifies     []string   // heap fields ("Type.field") that may change on pre-existing objects
	Dead         []string   // cover obligations expected to be unreachable under the precondition (suffix match)
	StmtHints    []StmtHint // lemma instances / assertions placed before the statement starting on a source line
	Skips        []string   // "file.go:LINE": an unsupported construct on that line drops the path (reported as not verified)
	SkipWhy      []string
	Free         []string // parameters exempt from the exact-mode domain assumption (may hold +-Inf)
}

type Contracts struct {
	LoadErrors []string
	Specs      map[string]*SpecFunc // key pkg.name
	Lemmas     map[string]*Lemma
	Funcs      map[string]*FuncContract // key pkg.Key
	Order      []string                 // lemma order
}

var directiveKW = map[string]bool{
	"spec": true, "lemma": true, "axiom": true, "func": true, "requires": true, "ensures": true,
	"loop": true, "call": true, "assigns": true, "pure": true, "trusted": true, "arith": true,
	"decreases": true, "induction": true, "use": true, "props": true, "ret": true, "entry": true,
	"unfold": true, "iter": true, "ghost": true, "opaque": true, "nosafety": true, "have": true, "free": true, "dead": true, "modifies": true, "reveal": true, "proto": true, "only": true, "pureas": true, "extern": true, "skip": true, "stmt": true,
}

// collectAnnotations returns the //@ lines of a file, with positions.
func collectAnnotations(f *ast.File, fname string) []string {
	var out []string
	for _, cg := range f.Comments {
		for _, c := range cg.List {
			t := c.Text
			if strings.HasPrefix(t, "//@") {
				out = append(out, strings.TrimPrefix(t, "//@"))
			}
		}
	}
	return out
}

type item struct {
	kw   string
	text string
}

func splitItems(lines []string) []item {
	var items []item
	for _, l := range lines {
		tl := strings.TrimSpace(l)
		if tl == "" {
			continue
		}
		first := tl
		if i := strings.IndexAny(tl, " \t("); i >= 0 {
			first = tl[:i]
		}
		if directiveKW[first] {
			items = append(items, item{first, strings.TrimSpace(tl[len(first):])})
		} else if len(items) > 0 {
			items[len(items)-1].text += "\n" + tl
		} else {
			panic("annotation text before first directive: " + tl)
		}
	}
	return items
}

func parseClause(text, where string) *Clause {
	toks, err := lexSpec(text, where)
	if err != nil {
		panic(err)
	}
	c := &Clause{Src: strings.Join(strings.Fields(text), " ")}
	p := &sparser{toks: toks}
	// optional label  ident ':'
	if p.peek().k == "id" && p.peekAt(1).k == "op" && p.peekAt(1).s == ":" {
		c.Label = p.next().s
		p.next()
	} else if p.peek().k == "id" && p.peekAt(1).k == "op" && p.peekAt(1).s == "[" {
		// Label [C09 C13]: the clause serves only these properties
		save := p.p
		lab := p.next().s
		p.next()
		var props []string
		ok := true
		for !p.isOp("]") {
			t := p.next()
			if t.k == "op" && t.s == "," {
				continue
			}
			if t.k != "id" {
				ok = false
				break
			}
			props = append(props, t.s)
		}
		if ok && p.isOp("]") && p.peekAt(1).k == "op" && p.peekAt(1).s == ":" {
			p.next()
			p.next()
			c.Label = lab
			c.Props = props
		} else {
			p.p = save
		}
	}
	c.E = p.parseExpr()
	if p.peek().k != "eof" {
		panic(fmt.Sprintf("%s: trailing tokens after expression: %q in %q", where, p.peek().s, text))
	}
	return c
}

func parseExprText(text, where string) *SExpr {
	toks, err := lexSpec(text, where)
	if err != nil {
		panic(err)
	}
	p := &sparser{toks: toks}
	e := p.parseExpr()
	if p.peek().k != "eof" {
		panic(fmt.Sprintf("%s: trailing tokens after expression: %q in %q", where, p.peek().s, text))
	}
	return e
}

func parseParams(p *sparser) []SParam {
	var ps []SParam
	p.expectOp("(")
	for !p.isOp(")") {
		// names list then type
		names := []string{p.expectId()}
		for p.isOp(",") {
			p.next()
			names = append(names, p.expectId())
		}
		typ := p.parseType()
		for _, n := range names {
			ps = append(ps, SParam{n, typ})
		}
		if p.isOp(",") {
			p.next()
		}
	}
	p.expectOp(")")
	return ps
}

func (cs *Contracts) parseFile(pkg string, lines []string, where string) {
	items := splitItems(lines)
	var curF *FuncContract
	var curL *Lemma
	var curS *SpecFunc
	for n, it := range items {
		w := fmt.Sprintf("%s#%d(%s)", where, n, it.kw)
		cs.parseItem(pkg, it, w, where, &curF, &curL, &curS)
	}
}

// parseItem handles one directive; a malformed directive is recorded and skipped (it must not take down the
// contracts of other files: several people edit contract files at the same time).
func (cs *Contracts) parseItem(pkg string, it item, w, where string, pcurF **FuncContract, pcurL **Lemma, pcurS **SpecFunc) {
	curF, curL, curS := *pcurF, *pcurL, *pcurS
	defer func() {
		*pcurF, *pcurL, *pcurS = curF, curL, curS
		if r := recover(); r != nil {
			cs.LoadErrors = append(cs.LoadErrors, fmt.Sprint(r))
		}
	}()
	for range []int{0} {
		switch it.kw {
		case "spec":
			// spec func name(params) type [rec] { body }   or without body (uninterpreted)
			toks, err := lexSpec(it.text, w)
			if err != nil {
				panic(err)
			}
			p := &sparser{toks: toks}
			if p.expectId() != "func" {
				panic(w + ": expected 'spec func'")
			}
			sf := &SpecFunc{Pkg: pkg, Src: it.text}
			sf.Name = p.expectId()
			sf.Params = parseParams(p)
			sf.Ret = p.parseType()
			for p.peek().k == "id" {
				switch p.peek().s {
				case "rec":
					p.next()
					sf.Rec = true
					if p.peek().k == "num" {
						sf.MaxUnfold, _ = strconv.Atoi(p.next().s)
					}
				case "opaque":
					p.next()
					sf.Opaque = true
				case "hidden":
					p.next()
					sf.Hidden = true
				default:
					panic(w + ": unexpected " + p.peek().s)
				}
			}
			if p.isOp("{") {
				p.next()
				sf.Body = p.parseExpr()
				if usesOld(sf.Body) {
					panic(w + ": old(..) is not allowed in a spec function body (spec functions are single-state; use a twostate lemma)")
				}
				p.expectOp("}")
			}
			if prev, ok := cs.Specs[pkg+"."+sf.Name]; ok && prev.Body != nil && sf.Body == nil {
				// a bodiless redeclaration (API placeholder) does not override a definition
				curS, curF, curL = prev, nil, nil
				break
			} else if ok && prev.Body != nil && sf.Body != nil {
				panic(w + ": duplicate definition of spec func " + sf.Name)
			}
			cs.Specs[pkg+"."+sf.Name] = sf
			curS, curF, curL = sf, nil, nil
		case "lemma", "axiom":
			toks, err := lexSpec(it.text, w)
			if err != nil {
				panic(err)
			}
			p := &sparser{toks: toks}
			lm := &Lemma{Pkg: pkg, Src: it.text, Axiom: it.kw == "axiom"}
			lm.Name = p.expectId()
			lm.Params = parseParams(p)
			if p.isId("twostate") {
				p.next()
				lm.TwoState = true
			}
			cs.Lemmas[pkg+"."+lm.Name] = lm
			cs.Order = append(cs.Order, pkg+"."+lm.Name)
			curL, curF, curS = lm, nil, nil
		case "extern":
			// assumed contract of a function of a dependency: extern gjson.Result.ForEach
			fc := &FuncContract{Pkg: pkg, Key: "ext." + strings.TrimSpace(it.text), Loops: map[int]*LoopSpec{}, Calls: map[int]*CallSpec{}, Src: where, Trusted: true, TrustWhy: "assumed contract of a dependency"}
			cs.Funcs[fc.Key] = fc
			curF, curL, curS = fc, nil, nil
		case "func":
			fc := &FuncContract{Pkg: pkg, Key: strings.TrimSpace(it.text), Loops: map[int]*LoopSpec{}, Calls: map[int]*CallSpec{}, Src: where}
			fc.Placeholder = strings.Contains(where, "_api_")
			if prev, dup := cs.Funcs[pkg+"."+fc.Key]; dup {
				switch {
				case prev.Placeholder && !fc.Placeholder:
					// a real contract replaces the API placeholder
				case !prev.Placeholder && fc.Placeholder:
					// keep the real one; parse the placeholder into a scratch contract
					curF, curL, curS = fc, nil, nil
					continue
				default:
					panic(w + ": duplicate contract for " + fc.Key)
				}
			}
			cs.Funcs[pkg+"."+fc.Key] = fc
			curF, curL, curS = fc, nil, nil
		case "requires":
			c := parseClause(it.text, w)
			if curF != nil {
				curF.Requires = append(curF.Requires, c)
			} else if curL != nil {
				curL.Requires = append(curL.Requires, c)
			} else {
				panic(w + ": requires outside func/lemma")
			}
		case "ensures":
			c := parseClause(it.text, w)
			if curF != nil {
				curF.Ensures = append(curF.Ensures, c)
			} else if curL != nil {
				curL.Ensures = append(curL.Ensures, c)
			} else {
				panic(w + ": ensures outside func/lemma")
			}
		case "decreases":
			// `decreases e1 ; e2 ; ...` is a lexicographic measure (function contracts only)
			parts := splitTopLevel(it.text, ';')
			e := parseExprText(parts[0], w)
			if curF != nil {
				curF.Decreases = e
				curF.DecLex = []*SExpr{e}
				for _, q := range parts[1:] {
					curF.DecLex = append(curF.DecLex, parseExprText(q, w))
				}
			} else if curS != nil {
				curS.Decreases = e
			}
		case "induction":
			f := strings.Fields(it.text)
			curL.Induction = f[0]
			if len(f) > 2 && f[1] == "from" {
				curL.Base = parseExprText(strings.Join(f[2:], " "), w)
			}
		case "unfold":
			n, _ := strconv.Atoi(strings.TrimSpace(it.text))
			if curF != nil {
				curF.Unfold = n
			} else if curL != nil {
				curL.Unfold = n
			}
		case "use":
			e := parseExprText(it.text, w)
			if curL != nil {
				curL.Uses = append(curL.Uses, e)
			} else {
				panic(w + ": bare use only in lemma; use 'ret use', 'loop N use', 'entry use' in functions")
			}
		case "have":
			if curL == nil {
				panic(w + ": have only in lemmas")
			}
			curL.Haves = append(curL.Haves, parseClause(it.text, w))
		case "pureas":
			curF.PureAs = strings.TrimSpace(it.text)
		case "skip":
			f := strings.SplitN(strings.TrimSpace(it.text), " ", 2)
			curF.Skips = append(curF.Skips, f[0])
			why := ""
			if len(f) > 1 {
				why = f[1]
			}
			curF.SkipWhy = append(curF.SkipWhy, why)
		case "stmt":
			txt := strings.TrimSpace(it.text)
			var f []string
			h := StmtHint{}
			if i := strings.Index(txt, ":\""); i > 0 && !strings.Contains(txt[:i], " ") {
				// stmt file.go:"first line of the statement" use ...   (robust against line shifts)
				j := strings.Index(txt[i+2:], "\"")
				if j < 0 {
					panic(w + ": stmt: unterminated text anchor")
				}
				h.File = txt[:i]
				h.Text = txt[i+2 : i+2+j]
				h.Where = txt[:i+2+j+1]
				f = append([]string{h.Where}, strings.SplitN(strings.TrimSpace(txt[i+2+j+1:]), " ", 2)...)
			} else {
				f = strings.SplitN(txt, " ", 3)
			}
			if len(f) < 3 || (f[1] != "use" && f[1] != "assert") {
				panic(w + ": stmt file.go:LINE use L(args) | stmt file.go:LINE assert Label: expr")
			}
			if h.Text == "" {
				h.Where = f[0]
				if i := strings.LastIndex(f[0], ":"); i > 0 {
					h.File = f[0][:i]
					fmt.Sscan(f[0][i+1:], &h.Line)
				}
				if h.Line == 0 {
					panic(w + ": stmt needs file.go:LINE or file.go:\"text\"")
				}
			}
			if f[1] == "use" {
				h.Use = parseExprText(f[2], w)
			} else {
				h.Assert = parseClause(f[2], w)
			}
			curF.StmtHints = append(curF.StmtHints, h)
		case "only":
			curF.Only = append(curF.Only, strings.FieldsFunc(it.text, func(r rune) bool { return r == ',' || r == ' ' })...)
		case "proto":
			rest := strings.TrimSpace(it.text)
			target := ""
			if !strings.HasPrefix(rest, "use") {
				f := strings.SplitN(rest, " ", 2)
				target = f[0]
				if len(f) < 2 || !strings.HasPrefix(strings.TrimSpace(f[1]), "use") {
					panic(w + ": expected 'proto [target] use'")
				}
				rest = strings.TrimSpace(f[1])
			}
			curF.ProtoTargets = append(curF.ProtoTargets, target)
			curF.ProtoUses = append(curF.ProtoUses, parseExprText(strings.TrimPrefix(rest, "use"), w))
		case "reveal":
			names := strings.FieldsFunc(it.text, func(r rune) bool { return r == ',' || r == ' ' })
			if curL != nil {
				curL.Reveal = append(curL.Reveal, names...)
			} else if curF != nil {
				curF.Reveal = append(curF.Reveal, names...)
			}
		case "modifies":
			for _, a := range strings.FieldsFunc(it.text, func(r rune) bool { return r == ',' || r == ' ' }) {
				curF.Modifies = append(curF.Modifies, a)
			}
		case "dead":
			// dead cover.retN                  (return site by ordinal), or
			// dead ret "text"#K                (the K-th return statement whose source line starts with text)
			if rest := strings.TrimSpace(it.text); strings.HasPrefix(rest, "ret \"") {
				rest = rest[len("ret \""):]
				end := strings.Index(rest, "\"")
				if end < 0 {
					panic(w + ": dead ret \"text\"#K")
				}
				k := 1
				if after := strings.TrimSpace(rest[end+1:]); strings.HasPrefix(after, "#") {
					fmt.Sscan(after[1:], &k)
				}
				curF.RetLetsText = append(curF.RetLetsText, RetLetText{Text: rest[:end], K: k, Dead: true})
				break
			}
			curF.Dead = append(curF.Dead, strings.Fields(it.text)...)
		case "free":
			for _, a := range strings.FieldsFunc(it.text, func(r rune) bool { return r == ',' || r == ' ' }) {
				curF.Free = append(curF.Free, a)
			}
		case "props":
			ps := strings.FieldsFunc(it.text, func(r rune) bool { return r == ',' || r == ' ' })
			if curF != nil {
				curF.Props = ps
			} else if curL != nil {
				curL.Props = ps
			}
		case "pure":
			curF.Pure = true
		case "nosafety":
			curF.NoSafety = true
		case "trusted":
			curF.Trusted = true
			curF.TrustWhy = it.text
		case "arith":
			curF.Arith = strings.TrimSpace(it.text)
		case "assigns":
			for _, a := range strings.Split(it.text, ",") {
				curF.Assigns = append(curF.Assigns, strings.TrimSpace(a))
			}
		case "ghost":
			toks, _ := lexSpec(it.text, w)
			p := &sparser{toks: toks}
			name := p.expectId()
			typ := p.parseType()
			curF.Ghosts = append(curF.Ghosts, SParam{name, typ})
		case "ret", "entry":
			rest := strings.TrimSpace(it.text)
			if it.kw == "ret" && strings.HasPrefix(rest, "have ") {
				curF.RetHaves = append(curF.RetHaves, parseClause(strings.TrimPrefix(rest, "have "), w))
				break
			}
			if f := strings.Fields(rest); it.kw == "ret" && ((len(f) > 2 && f[1] == "let") || (strings.HasPrefix(rest, "\"") && strings.Contains(rest, " let "))) {
				// ret N let $a = e ; $b = e      (N = ordinal of the return site), or
				// ret "text"#K let ...           (the K-th return statement whose source line starts with text; robust against
				//                                 return sites added or removed elsewhere in the function)
				if strings.HasPrefix(rest, "\"") {
					end := strings.Index(rest[1:], "\"")
					if end < 0 {
						panic(w + ": ret \"text\"#K let ...")
					}
					txt := rest[1 : 1+end]
					after := strings.TrimSpace(rest[2+end:])
					k := 1
					if strings.HasPrefix(after, "#") {
						fmt.Sscan(after[1:], &k)
					}
					lets := map[string]*SExpr{}
					body := strings.TrimSpace(after[strings.Index(after, "let")+3:])
					for _, part := range strings.Split(body, ";") {
						kv := strings.SplitN(part, "=", 2)
						if len(kv) != 2 {
							panic(w + ": ret let: name = expr")
						}
						lets[strings.TrimSpace(kv[0])] = parseExprText(kv[1], w)
					}
					curF.RetLetsText = append(curF.RetLetsText, RetLetText{Text: txt, K: k, Lets: lets})
					break
				}
				n, err := strconv.Atoi(f[0])
				if err != nil {
					panic(w + ": ret N let ...")
				}
				if curF.RetLets == nil {
					curF.RetLets = map[int]map[string]*SExpr{}
				}
				if curF.RetLets[n] == nil {
					curF.RetLets[n] = map[string]*SExpr{}
				}
				body := strings.TrimSpace(rest[strings.Index(rest, "let")+3:])
				for _, part := range strings.Split(body, ";") {
					kv := strings.SplitN(part, "=", 2)
					if len(kv) != 2 {
						panic(w + ": ret let: name = expr")
					}
					curF.RetLets[n][strings.TrimSpace(kv[0])] = parseExprText(kv[1], w)
				}
				break
			}
			if !strings.HasPrefix(rest, "use") {
				panic(w + ": expected 'use'")
			}
			e := parseExprText(strings.TrimPrefix(rest, "use"), w)
			if it.kw == "ret" {
				curF.RetUses = append(curF.RetUses, e)
			} else {
				curF.EntryUses = append(curF.EntryUses, e)
			}
		case "loop":
			f := strings.SplitN(it.text, " ", 3)
			if len(f) < 3 {
				panic(w + ": loop N kind expr")
			}
			n, err := strconv.Atoi(f[0])
			if err != nil {
				panic(w + ": loop ordinal")
			}
			ls := curF.Loops[n]
			if ls == nil {
				ls = &LoopSpec{}
				curF.Loops[n] = ls
			}
			switch f[1] {
			case "invariant":
				ls.Invariants = append(ls.Invariants, parseClause(f[2], w))
			case "assert":
				ls.Asserts = append(ls.Asserts, parseClause(f[2], w))
			case "decreases":
				ls.Decreases = parseExprText(f[2], w)
			case "use":
				ls.Uses = append(ls.Uses, parseExprText(f[2], w))
			case "begin":
				ls.BeginUses = append(ls.BeginUses, parseExprText(strings.TrimPrefix(strings.TrimSpace(f[2]), "use"), w))
			case "unfold":
				ls.Unfold, _ = strconv.Atoi(strings.TrimSpace(f[2]))
			default:
				panic(w + ": unknown loop clause " + f[1])
			}
		case "call":
			f := strings.SplitN(it.text, " ", 3)
			n, err := strconv.Atoi(f[0])
			if err != nil || len(f) < 3 {
				panic(w + ": call N kind expr")
			}
			c := curF.Calls[n]
			if c == nil {
				c = &CallSpec{}
				curF.Calls[n] = c
			}
			switch f[1] {
			case "at":
				c.At = parseExprText(f[2], w)
			case "shift":
				c.Shift = parseExprText(f[2], w)
			case "iterinv":
				c.IterInv = append(c.IterInv, parseClause(f[2], w))
			case "iterstop":
				c.IterStop = append(c.IterStop, parseClause(f[2], w))
			case "use":
				c.Uses = append(c.Uses, parseExprText(f[2], w))
			case "after":
				c.After = append(c.After, parseExprText(strings.TrimPrefix(strings.TrimSpace(f[2]), "use"), w))
			default:
				panic(w + ": unknown call clause " + f[1])
			}
		case "iter":
			// iter <param>(<idx>) dom <e> ; match <e> ; args <e>, <e>
			toks, _ := lexSpec(it.text, w)
			p := &sparser{toks: toks}
			ip := &IterProto{}
			ip.Param = p.expectId()
			p.expectOp("(")
			ip.IdxVar = p.expectId()
			p.expectOp(")")
			for p.peek().k != "eof" {
				k := p.expectId()
				switch k {
				case "dom":
					ip.Dom = p.parseExpr()
				case "match":
					ip.Match = p.parseExpr()
				case "args":
					ip.Args = append(ip.Args, p.parseExpr())
					for p.isOp(",") {
						p.next()
						ip.Args = append(ip.Args, p.parseExpr())
					}
				case "at":
					ip.At = p.parseExpr()
				default:
					panic(w + ": iter: unknown part " + k)
				}
				if p.isOp(";") {
					p.next()
				}
			}
			curF.Iter = ip
		default:
			panic(w + ": unhandled directive " + it.kw)
		}
	}
}

func (cs *Contracts) funcKeys() []string {
	var ks []string
	for k := range cs.Funcs {
		ks = append(ks, k)
	}
	sort.Strings(ks)
	return ks
}

func usesOld(e *SExpr) bool {
	if e == nil {
		return false
	}
	if e.Kind == "call" && len(e.Args) > 0 && e.Args[0].Kind == "ident" && e.Args[0].Name == "old" {
		return true
	}
	for _, a := range e.Args {
		if usesOld(a) {
			return true
		}
	}
	return false
}

// splitTopLevel splits at sep outside parentheses / brackets.
func splitTopLevel(s string, sep rune) []string {
	var out []string
	depth := 0
	cur := ""
	for _, r := range s {
		switch {
		case r == '(' || r == '[':
			depth++
		case r == ')' || r == ']':
			depth--
		}
		if r == sep && depth == 0 {
			out = append(out, cur)
			cur = ""
			continue
		}
		cur += string(r)
	}
	return append(out, cur)
}
