package main

import (
	"fmt"
	"go/ast"
	"go/types"
	"os"
	"sort"
	"strings"
)

// ---------------------------------------------------------------- spec evaluation in executor context

func (ex *Exec) specEnv(st *State, extra map[string]*Val) *SpecEnv {
	names := map[string]*Val{}
	for k, v := range extra {
		names[k] = v
	}
	env := &SpecEnv{names: names, st: st, ex: ex, pkg: shortPkg(ex.fi.Pkg.PkgPath), w: ex.w, heapOf: heapOfState(st)}
	if ex.entry != nil {
		env.old = &SpecEnv{names: map[string]*Val{}, st: ex.entry, ex: ex, pkg: env.pkg, w: ex.w, heapOf: heapOfState(ex.entry)}
	}
	return env
}

func heapOfState(st *State) func(*Term) *Term {
	return func(g *Term) *Term {
		if st != nil {
			if v, ok := st.ghost["H:"+g.Op]; ok {
				return v.T
			}
		}
		return g
	}
}

func (ex *Exec) specVal(st *State, e *SExpr, extra map[string]*Val) *Val {
	return ex.w.trSpec(e, ex.specEnv(st, extra))
}

func (ex *Exec) specBool(st *State, e *SExpr, extra map[string]*Val) *Term {
	v := ex.specVal(st, e, extra)
	if v.T.S.Kind != KBool {
		panic("spec: expected boolean: " + e.String())
	}
	return v.T
}

func (ex *Exec) specBoolWith(st *State, e *SExpr, extra map[string]*Val) *Term {
	return ex.specBool(st, e, extra)
}

// tryApplyLemma: like applyLemma, but a hint that mentions a variable not in scope at this point is skipped.
func (ex *Exec) tryApplyLemma(st *State, use *SExpr, extra map[string]*Val) {
	defer func() {
		if r := recover(); r != nil {
			if s, ok := r.(string); ok && strings.Contains(s, "unknown identifier") {
				return
			}
			panic(r)
		}
	}()
	ex.applyLemma(st, use, extra)
}

// applyLemma assumes an instance of a lemma: use L(args)
func (ex *Exec) applyLemma(st *State, use *SExpr, extra map[string]*Val) {
	env := ex.specEnv(st, extra)
	defer func() {
		// a hint that mentions $i / $idx / $j at a point where that index does not exist (a `ret use` reached
		// after the loop) is simply not instantiated there
		if r := recover(); r != nil {
			if s, ok := r.(string); ok && strings.HasSuffix(s, "is not defined at this point") {
				return
			}
			panic(r)
		}
	}()
	ex.assume(st, ex.w.lemmaInstance(use, env))
}

func (w *World) lemmaInstance(use *SExpr, env *SpecEnv) *Term {
	if use.Kind == "quant" && use.Name == "forall" {
		// use forall j int :: L(.. j ..): a universally quantified lemma instance
		extra := map[string]*Val{}
		var bvs []*Term
		for _, v := range use.Vars {
			s, gt := w.resolveSpecType(env.pkg, v.Type)
			bvCounter++
			c := cnst(fmt.Sprintf("%s$%d", v.Name, bvCounter), s)
			bvs = append(bvs, c)
			extra[v.Name] = tv(c, gt)
		}
		body := w.lemmaInstance(use.Args[0], env.with(extra))
		return &Term{Op: "forall", BVars: bvs, S: SBool, Args: []*Term{body}}
	}
	if use.Kind == "call" && use.Args[0].Kind == "field" && use.Args[0].Args[0].Kind == "ident" {
		// pkg.lemma(args)
		use = &SExpr{Kind: "call", Args: append([]*SExpr{{Kind: "ident", Name: use.Args[0].Name}}, use.Args[1:]...)}
	}
	if use.Kind != "call" || use.Args[0].Kind != "ident" {
		panic("use: expected lemma application, got " + use.String())
	}
	lm := w.findLemma(env.pkg, use.Args[0].Name)
	if lm == nil && strings.HasPrefix(use.Args[0].Name, "contractOf_") {
		return w.contractOfInstance(strings.TrimPrefix(use.Args[0].Name, "contractOf_"), use, env)
	}
	if lm == nil {
		panic("use: unknown lemma " + use.Args[0].Name)
	}
	if len(use.Args)-1 != len(lm.Params) {
		panic("use: arity mismatch for lemma " + lm.Name)
	}
	names := map[string]*Val{}
	for i, p := range lm.Params {
		ps, gt := w.resolveSpecType(lm.Pkg, p.Type)
		v := w.trSpec(use.Args[i+1], env)
		names[p.Name] = tv(coerceTo(v, ps), gt)
	}
	lenv := &SpecEnv{names: names, pkg: lm.Pkg, w: w, heapOf: env.heapOf}
	if lm.TwoState && env.old != nil {
		// old(e) inside a two-state lemma: e in the heap that `old` denotes at the use site (names stay the lemma's)
		lenv.old = &SpecEnv{names: names, pkg: lm.Pkg, w: w, heapOf: env.old.heapOf}
	}
	var req, ens []*Term
	for _, c := range lm.Requires {
		req = append(req, w.trSpec(c.E, lenv).T)
	}
	for _, c := range lm.Ensures {
		ens = append(ens, w.trSpec(c.E, lenv).T)
	}
	return tImp(tAnd(req...), tAnd(ens...))
}

// ---------------------------------------------------------------- function verification driver

func paramNames(fi *FuncInfo) (recv string, params []string) {
	if fi.Decl != nil {
		if fi.Decl.Recv != nil && len(fi.Decl.Recv.List) > 0 && len(fi.Decl.Recv.List[0].Names) > 0 {
			recv = fi.Decl.Recv.List[0].Names[0].Name
		} else if fi.Recv != nil {
			recv = "self"
		}
	} else if fi.Recv != nil {
		recv = "self"
	}
	for i := 0; i < fi.Sig.Params().Len(); i++ {
		n := fi.Sig.Params().At(i).Name()
		if n == "" || n == "_" {
			n = fmt.Sprintf("arg%d", i)
		}
		params = append(params, n)
	}
	return
}

func resultNames(sig *types.Signature) []string {
	var out []string
	n := sig.Results().Len()
	for i := 0; i < n; i++ {
		nm := sig.Results().At(i).Name()
		if nm == "" || nm == "_" {
			if n == 1 {
				nm = "result"
			} else {
				nm = fmt.Sprintf("result%d", i)
			}
		}
		out = append(out, nm)
	}
	return out
}

func (w *World) verifyFunc(fi *FuncInfo, fc *FuncContract) (ex *Exec, err error) {
	// names are local to the SMT files of this function: restart the counters so that the generated
	// text (and hence solver behaviour) does not depend on which other functions are in the run
	w.fresh = 0
	bvCounter = 100000
	ex = &Exec{w: w, fi: fi, fc: fc, info: fi.Pkg.TypesInfo, arith: "exact", assumedCalls: map[string]bool{}, heapTouched: map[string]*Term{}, heapMayWrite: map[string]*Term{}}
	if fc.Arith != "" {
		ex.arith = fc.Arith
	} else if i := strings.Index(fc.Key, "@"); i >= 0 {
		ex.arith = fc.Key[i+1:]
	}
	ex.unfold = fc.Unfold
	defer func() {
		if r := recover(); r != nil {
			if u, ok := r.(unsupportedErr); ok {
				err = u
				return
			}
			if s, ok := r.(string); ok {
				err = fmt.Errorf("%s: %s", fi.Key, s)
				return
			}
			panic(r)
		}
	}()
	if fi.Decl == nil || fi.Decl.Body == nil {
		return ex, fmt.Errorf("no body")
	}
	st := &State{vars: map[types.Object]*Val{}, guard: tTrue, ghost: map[string]*Val{}}
	ex.collectHeapWrites(fi.Decl.Body)
	ex.allocates = bodyAllocates(ex, fi.Decl.Body)
	bind := func(v *types.Var, name string) {
		s := w.sortOf(v.Type())
		var val *Val
		if _, isFn := v.Type().Underlying().(*types.Signature); isFn {
			val = &Val{T: intLit(1), GoT: v.Type(), FnObj: v, Mag: -1}
		} else {
			isFree := false
			for _, f := range fc.Free {
				if f == name {
					isFree = true
				}
			}
			var c *Term
			if isFree {
				c = ex.fresh("p_"+name, s)
				val = tv(c, v.Type())
			} else {
				c = ex.freshInput("p_"+name, s)
				val = tv(c, v.Type())
				ex.assume(st, ex.domainFacts(c, v.Type()))
				if ex.arith == "exact" && (s.Kind == KReal || s.Kind == KDT) {
					val.Mag = 20
				}
			}
			if isIntType(v.Type()) {
				ex.assume(st, ex.intRange(c, v.Type()))
			}
			if s.IsSlice {
				ex.assume(st, tAnd(mk("<=", SBool, intLit(0), tField(c, "len")), mk("<=", SBool, intLit(0), tField(c, "off"))))
			}
			ex.assume(st, ex.ptrTypeFact(c, v.Type()))
			if ex.allocates && s.Eq(SRef) && !isIntType(v.Type()) {
				ex.assume(st, tOr(tEq(c, intLit(0)), ex.isAlloc(st, c)))
			}
			ex.inputs = append(ex.inputs, ModelVar{Name: name, Term: c, GoT: v.Type()})
			// pointer to scalar: ghost cell
			if pt, ok := v.Type().Underlying().(*types.Pointer); ok {
				_, isBasic := pt.Elem().Underlying().(*types.Basic)
				_, isPtr := pt.Elem().Underlying().(*types.Pointer)
				_, isIface := pt.Elem().Underlying().(*types.Interface)
				if isBasic || isPtr || isIface {
					cs := w.sortOf(pt.Elem())
					cell := ex.freshInput("cell_"+name, cs)
					st.ghost["*"+name] = tv(cell, pt.Elem())
					ex.inputs = append(ex.inputs, ModelVar{Name: "*" + name, Term: cell, GoT: pt.Elem()})
				}
			}
		}
		st.vars[v] = val
	}
	rn, pns := paramNames(fi)
	if fi.Recv != nil {
		var robj *types.Var = fi.Recv
		if fi.Decl.Recv != nil && len(fi.Decl.Recv.List[0].Names) > 0 {
			robj = ex.info.Defs[fi.Decl.Recv.List[0].Names[0]].(*types.Var)
		}
		bind(robj, rn)
	}
	pi := 0
	for _, fld := range fi.Decl.Type.Params.List {
		if len(fld.Names) == 0 {
			pi++
			continue
		}
		for _, nm := range fld.Names {
			if obj, ok := ex.info.Defs[nm].(*types.Var); ok && obj != nil {
				bind(obj, pns[pi])
			}
			pi++
		}
	}
	// named results
	if fi.Decl.Type.Results != nil {
		for _, fld := range fi.Decl.Type.Results.List {
			for _, nm := range fld.Names {
				if obj, ok := ex.info.Defs[nm].(*types.Var); ok && obj != nil {
					z := tv(ex.zeroTerm(obj.Type()), obj.Type())
					z.Mag = 0
					st.vars[obj] = z
					ex.results = append(ex.results, obj)
				}
			}
		}
	}
	if fc.Iter != nil {
		ex.iterState = true
		seen0 := ex.fresh("seen0", arraySort(SInt, SBool))
		st.ghost["seen"] = tv(seen0, nil)
		st.ghost["stopped"] = tv(tFalse, nil)
	}
	// exact-mode constants
	if ex.arith == "exact" {
		eps := cnst("eps", SReal)
		ex.assume(st, tAnd(mk("<", SBool, realLit("0"), eps), mk("<=", SBool, eps, mk("/", SReal, realLit("1"), realLit("4294967296")))))
		b := realLit(fmt.Sprint(4 * exactBound))
		ex.assume(st, tAnd(mk(">", SBool, cnst("pinf", SReal), b), mk("<", SBool, cnst("ninf", SReal), mk("-", SReal, b))))
	} else {
		ex.assume(st, mk("<", SBool, cnst("ninf", SReal), cnst("pinf", SReal)))
	}
	for _, g := range fc.Ghosts {
		gs, gt := w.resolveSpecType(shortPkg(fi.Pkg.PkgPath), g.Type)
		st.ghost[g.Name] = tv(ex.fresh("gh_"+g.Name, gs), gt)
	}
	if ex.allocates && os.Getenv("GOVC_NONILALLOC") == "" {
		ex.assume(st, tNot(ex.isAlloc(st, intLit(0)))) // nil is never an allocated object
	}
	ex.entry = st.clone()
	for _, r := range fc.Requires {
		ex.assume(st, ex.specBool(st, r.E, nil))
	}
	if fc.Iter != nil {
		ex.assume(st, ex.iterDomFresh(st, fc.Iter, ex.specEnv(st, nil), st.ghost["seen"].T))
	}
	ex.entry.guard = st.guard
	for _, u := range fc.EntryUses {
		ex.applyLemma(st, u, nil)
	}
	cov := ex.oblige(st, "cover", "cover.pre", tFalse, "precondition is satisfiable")
	cov.Cover = true
	fl := ex.execBlock(st, fi.Decl.Body.List)
	if fl.normal != nil {
		ex.execReturn(fl.normal, nil)
	}
	if len(fl.breaks)+len(fl.continues) > 0 {
		return ex, fmt.Errorf("break/continue outside loop")
	}
	for k := range fc.StmtHints {
		if !fc.StmtHints[k].used {
			if fc.StmtHints[k].Use != nil {
				// a lemma instantiation is only a proof aid: without its anchor the proof is attempted without it
				ex.notes = append(ex.notes, fmt.Sprintf("stmt hint (use) at %s has no anchor any more: skipped", fc.StmtHints[k].Where))
				continue
			}
			return ex, fmt.Errorf("stmt hint at %s: no statement of the function starts on that line", fc.StmtHints[k].Where)
		}
	}
	for k := range fc.RetLetsText {
		if !fc.RetLetsText[k].used {
			return ex, fmt.Errorf("ret hint %q#%d: the function has no such return statement", fc.RetLetsText[k].Text, fc.RetLetsText[k].K)
		}
	}
	for n := range fc.Calls {
		if n >= ex.callN {
			return ex, fmt.Errorf("contract mentions call %d but the function has only %d contract-governed calls (ordinals are shown in the obligation names)", n, ex.callN)
		}
	}
	for n := range fc.Loops {
		if n >= ex.loopN {
			return ex, fmt.Errorf("contract mentions loop %d but the function has only %d loops", n, ex.loopN)
		}
	}
	return ex, nil
}

// iterDomFresh: forall i :: Dom(i) ==> !seen[i]
func (ex *Exec) iterDomFresh(st *State, ip *IterProto, env *SpecEnv, seen *Term) *Term {
	bvCounter++
	i := cnst(fmt.Sprintf("%s$%d", ip.IdxVar, bvCounter), SInt)
	d := ex.w.trSpec(ip.Dom, env.with(map[string]*Val{ip.IdxVar: tv(i, types.Typ[types.Int])})).T
	return &Term{Op: "forall", BVars: []*Term{i}, Args: []*Term{tImp(d, tNot(tSelect(seen, i)))}, S: SBool}
}

// ---------------------------------------------------------------- return

type closureCtx struct {
	onReturn func(st *State, vals []*Val, at ast.Node)
}

var closureStack []*closureCtx

func (ex *Exec) execReturn(st *State, s *ast.ReturnStmt) {
	var vals []*Val
	if s != nil {
		if len(s.Results) == 1 && ex.fi.Sig.Results().Len() > 1 && len(closureStack) == 0 {
			v := ex.eval(st, s.Results[0])
			vals = v.Tuple
		} else {
			for _, r := range s.Results {
				vals = append(vals, ex.eval(st, r))
			}
		}
	}
	if n := len(closureStack); n > 0 {
		closureStack[n-1].onReturn(st, vals, s)
		return
	}
	if len(vals) == 0 && len(ex.results) > 0 {
		for _, obj := range ex.results {
			vals = append(vals, st.vars[obj])
		}
	}
	rn := ex.retN
	ex.retN++
	where := "end of function"
	if s != nil {
		where = ex.pos(s)
	}
	names := resultNames(ex.fi.Sig)
	extra := map[string]*Val{}
	for i, nm := range names {
		if i < len(vals) {
			v := ex.convertTo(st, vals[i], ex.fi.Sig.Results().At(i).Type())
			if (v.GoT == nil || isUntypedNil(v.GoT)) && v.Loc == nil && v.T != nil {
				// `return nil`: the contract sees the value at the result's type
				b := *v
				b.GoT = ex.fi.Sig.Results().At(i).Type()
				v = &b
			}
			extra[nm] = v
			if nm != "result" && len(names) == 1 {
				extra["result"] = v
			}
		}
	}
	// parameters in postconditions denote entry values
	for obj, v := range ex.entry.vars {
		if _, isParam := obj.(*types.Var); isParam {
			if _, ok := extra[obj.Name()]; !ok {
				extra[obj.Name()] = v
			}
		}
	}
	if lets := ex.fc.RetLets[rn]; lets != nil {
		for nm, e := range lets {
			extra[nm] = ex.specVal(st, e, extra)
		}
	}
	if s != nil && len(ex.fc.RetLetsText) > 0 {
		p := ex.w.Fset.Position(s.Pos())
		line := strings.TrimSpace(ex.w.sourceLine(p.Filename, p.Line))
		if ex.retTextSeen == nil {
			ex.retTextSeen = map[int]int{}
		}
		for k := range ex.fc.RetLetsText {
			h := &ex.fc.RetLetsText[k]
			if strings.HasSuffix(h.Text, "$") {
				// "text$": the whole statement line (without a trailing comment) must be exactly text
				bare := line
				if c := strings.Index(bare, "//"); c >= 0 {
					bare = strings.TrimSpace(bare[:c])
				}
				if bare != strings.TrimSuffix(h.Text, "$") {
					continue
				}
			} else if !strings.HasPrefix(line, h.Text) {
				continue
			}
			ex.retTextSeen[k]++
			if ex.retTextSeen[k] == h.K {
				h.used = true
				if h.Dead {
					ex.fc.Dead = append(ex.fc.Dead, fmt.Sprintf("cover.ret%d", rn))
				}
				for nm, e := range h.Lets {
					extra[nm] = ex.specVal(st, e, extra)
				}
			}
		}
	}
	cov := ex.oblige(st, "cover", fmt.Sprintf("cover.ret%d", rn), tFalse, where+": return site reachable")
	cov.Cover = true
	for _, u := range ex.fc.RetUses {
		ex.applyLemma(st, u, extra)
	}
	for i, h := range ex.fc.RetHaves {
		g := ex.specBool(st, h.E, extra)
		ex.oblige(st, "have", fmt.Sprintf("have.ret%d.%s", rn, clauseName(h, i)), g, where+": have "+h.Src)
		ex.assume(st, g)
	}
	for i, c := range ex.fc.Ensures {
		g := ex.specBool(st, c.E, extra)
		o := ex.oblige(st, "post", fmt.Sprintf("post.ret%d.%s", rn, clauseName(c, i)), g, where+": ensures "+c.Src)
		if len(c.Props) > 0 {
			o.Props = c.Props
		}
	}
	// frame: heap fields not listed in `modifies` are unchanged on every pre-existing object
	{
		var keys []string
		for k := range ex.heapTouched {
			keys = append(keys, k)
		}
		sort.Strings(keys)
		alloc0 := ex.allocTerm(ex.entry)
		for _, k := range keys {
			g := ex.heapTouched[k]
			cur, ok := st.ghost["H:"+k]
			if !ok || cur.T == g {
				continue
			}
			listed := false
			for _, m := range ex.fc.Modifies {
				if mg := ex.w.heapByName(m); mg != nil && mg.Op == k {
					listed = true
				}
			}
			if listed {
				continue
			}
			bvCounter++
			r := cnst(fmt.Sprintf("r$%d", bvCounter), SRef)
			goal := &Term{Op: "forall", BVars: []*Term{r}, S: SBool, Args: []*Term{tImp(tSelect(alloc0, r), tEq(tSelect(cur.T, r), tSelect(g, r)))}}
			ex.oblige(st, "frame", fmt.Sprintf("frame.ret%d.%s", rn, strings.TrimPrefix(k, "H_")), goal, where+": heap field "+strings.TrimPrefix(k, "H_")+" of pre-existing objects is unchanged (not in modifies)")
		}
	}
	if ip := ex.fc.Iter; ip != nil {
		seen := st.ghost["seen"].T
		stopped := st.ghost["stopped"].T
		seen0 := ex.entry.ghost["seen"].T
		// the arbitrary index: a fresh constant ($j in `proto use` hints)
		pst := st.clone()
		j := ex.fresh("sk_j", SInt)
		jv := tv(j, types.Typ[types.Int])
		hx := map[string]*Val{}
		for k, v := range extra {
			hx[k] = v
		}
		hx["$j"] = jv
		for k, u := range ex.fc.ProtoUses {
			if tg := ex.fc.ProtoTargets[k]; tg == "" || tg == fmt.Sprintf("ret%d", rn) {
				ex.tryApplyLemma(pst, u, hx)
			}
		}
		env := ex.specEnv(pst, extra)
		ienv := env.with(map[string]*Val{ip.IdxVar: jv})
		dm := tAnd(ex.w.trSpec(ip.Dom, ienv).T, ex.w.trSpec(ip.Match, ienv).T)
		ex.oblige(pst, "proto", fmt.Sprintf("proto.ret%d.complete", rn), tOr(stopped, tImp(dm, tSelect(seen, j))), where+": unless stopped, every matching index has been reported")
		frame := tAnd(tImp(tSelect(seen, j), tOr(tSelect(seen0, j), dm)), tImp(tSelect(seen0, j), tSelect(seen, j)))
		ex.oblige(pst, "proto", fmt.Sprintf("proto.ret%d.frame", rn), frame, where+": only matching indices of the domain were reported")
	}
}

// ---------------------------------------------------------------- calls

func (ex *Exec) evalCall(st *State, e *ast.CallExpr) *Val {
	where := ex.pos(e)
	// conversion
	if tvv, ok := ex.info.Types[e.Fun]; ok && tvv.IsType() {
		x := ex.eval(st, e.Args[0])
		return ex.convert(st, x, tvv.Type, where)
	}
	// builtins
	if id, ok := e.Fun.(*ast.Ident); ok {
		if _, isB := ex.info.ObjectOf(id).(*types.Builtin); isB {
			return ex.evalBuiltin(st, id.Name, e)
		}
	}
	// functions and methods of dependencies / the standard library
	if sel, ok := e.Fun.(*ast.SelectorExpr); ok {
		if obj, ok := ex.info.ObjectOf(sel.Sel).(*types.Func); ok && obj.Pkg() != nil && !strings.HasPrefix(obj.Pkg().Path(), modPath) {
			if v := ex.callExtern(st, obj, sel, e); v != nil {
				return v
			}
			return ex.evalExternal(st, obj, sel, e)
		}
	}
	// callback parameter call
	if id, ok := e.Fun.(*ast.Ident); ok {
		if obj := ex.info.ObjectOf(id); obj != nil {
			if v, ok := st.vars[obj]; ok && v.FnObj != nil {
				return ex.callbackCall(st, v, e)
			}
		}
	}
	// resolve callee
	var callee *types.Func
	var recvVal *Val
	switch f := e.Fun.(type) {
	case *ast.Ident:
		callee, _ = ex.info.ObjectOf(f).(*types.Func)
	case *ast.SelectorExpr:
		if sel, ok := ex.info.Selections[f]; ok {
			callee, _ = sel.Obj().(*types.Func)
			recvVal = ex.receiverValue(st, f, sel)
		} else {
			callee, _ = ex.info.ObjectOf(f.Sel).(*types.Func)
		}
	}
	if callee == nil {
		panic(unsupported("call of non-function value at " + where))
	}
	cfi := ex.w.ByObj[callee]
	if cfi == nil {
		// method of embedded/instantiated type: try origin
		cfi = ex.w.ByObj[callee.Origin()]
	}
	if cfi == nil {
		panic(unsupported("callee not found: " + callee.FullName()))
	}
	cfc := ex.w.CS.Funcs[cfi.Key]
	// a contract variant for the caller's arithmetic mode takes precedence ("Key@order")
	if v := ex.w.CS.Funcs[cfi.Key+"@"+ex.arith]; v != nil {
		cfc = v
	}
	if cfc == nil {
		panic(unsupported("callee has no contract: " + cfi.Key + " (called at " + where + ")"))
	}
	var args []*Val
	for i, a := range e.Args {
		v := ex.eval(st, a)
		if i < cfi.Sig.Params().Len() {
			v = ex.convertTo(st, v, cfi.Sig.Params().At(i).Type())
		}
		args = append(args, v)
	}
	return ex.applyContract(st, cfi, cfc, recvVal, args, where)
}

func (ex *Exec) receiverValue(st *State, f *ast.SelectorExpr, sel *types.Selection) *Val {
	base := ex.eval(st, f.X)
	bt := ex.info.TypeOf(f.X)
	path := sel.Index()
	// walk embedded fields (all but last index)
	if len(path) > 1 {
		base = ex.selectPath(st, base, bt, path[:len(path)-1], f)
		bt = base.GoT
	}
	m := sel.Obj().(*types.Func)
	msig := m.Type().(*types.Signature)
	rt := msig.Recv().Type()
	_, wantPtr := rt.Underlying().(*types.Pointer)
	_, havePtr := bt.Underlying().(*types.Pointer)
	if _, isIface := bt.Underlying().(*types.Interface); isIface {
		ex.nonNil(st, base.T, ex.pos(f))
		return base
	}
	if ex.w.isRefStruct(bt) {
		// object value: its reference serves as receiver either way
		if wantPtr {
			return tv(base.T, types.NewPointer(bt))
		}
		return base
	}
	if wantPtr && !havePtr {
		// &x for addressable local value struct
		if id, ok := f.X.(*ast.Ident); ok && len(path) == 1 {
			obj := ex.info.ObjectOf(id)
			return &Val{Loc: obj, T: intLit(1), GoT: types.NewPointer(obj.Type()), Mag: -1}
		}
		panic(unsupported("pointer-receiver call on non-local value at " + ex.pos(f)))
	}
	if !wantPtr && havePtr {
		// (*p).M()
		if base.Loc != nil {
			return ex.lookupVar(st, base.Loc)
		}
		ex.nonNil(st, base.T, ex.pos(f))
		named := namedOf(bt.Underlying().(*types.Pointer).Elem())
		if ex.w.isRefStruct(named) {
			return tv(base.T, named)
		}
		return ex.loadDT(st, base.T, named)
	}
	return base
}

func (ex *Exec) convert(st *State, x *Val, to types.Type, where string) *Val {
	ts := ex.w.sortOf(to)
	if _, isIface := to.Underlying().(*types.Interface); isIface {
		return ex.convertTo(st, x, to)
	}
	switch {
	case x.T.S.Kind == KInt && ts.Kind == KReal:
		r := ex.coerceNum(x, SReal)
		r.GoT = to
		return r
	case x.T.S.Kind == KInt && ts.Kind == KInt:
		r := tv(x.T, to)
		rng := ex.intRange(x.T, to)
		if !rng.isTrue() && !x.Lit {
			ex.safeN++
			ex.oblige(st, "safe", fmt.Sprintf("safe.conv.%d", ex.safeN), rng, where+": conversion to "+to.String()+" does not truncate")
		}
		return r
	case x.T.S.Eq(ts):
		r := *x
		r.GoT = to
		return &r
	case x.T.S.Kind == KUnint && x.T.S.Name == "Str" && ts.IsSlice:
		// []byte(s): a fresh slice with the bytes of s
		r := mk("bytes_of_str", ts, x.T)
		ex.assume(st, tAnd(tEq(tField(r, "len"), mk("strlen", SInt, x.T)), tEq(tField(r, "off"), intLit(0)), mk("<=", SBool, intLit(0), tField(r, "len"))))
		v := tv(r, to)
		v.FreshSlice = true
		return v
	case x.T.S.IsSlice && ts.Kind == KUnint && ts.Name == "Str":
		r := mk("str_of_bytes", ts, x.T)
		ex.assume(st, tEq(mk("strlen", SInt, r), tField(x.T, "len")))
		return tv(r, to)
	}
	panic(unsupported("conversion to " + to.String() + " at " + where))
}

func (ex *Exec) evalBuiltin(st *State, name string, e *ast.CallExpr) *Val {
	where := ex.pos(e)
	switch name {
	case "len":
		x := ex.eval(st, e.Args[0])
		if x.T.S.IsSlice {
			l := ex.sliceLen(x.T)
			ex.assume(st, mk("<=", SBool, intLit(0), l))
			return tv(l, types.Typ[types.Int])
		}
		if a, ok := ex.info.TypeOf(e.Args[0]).Underlying().(*types.Array); ok {
			return tv(intLit(a.Len()), types.Typ[types.Int])
		}
		if b, ok := ex.info.TypeOf(e.Args[0]).Underlying().(*types.Basic); ok && b.Info()&types.IsString != 0 {
			l := mk("strlen", SInt, x.T)
			ex.assume(st, mk("<=", SBool, intLit(0), l))
			return tv(l, types.Typ[types.Int])
		}
	case "panic":
		ex.safeN++
		ex.oblige(st, "safe", fmt.Sprintf("safe.panic.%d", ex.safeN), tFalse, where+": explicit panic must be unreachable")
		ex.assume(st, tFalse)
		return tv(intLit(0), nil)
	case "append":
		base := ex.eval(st, e.Args[0])
		if e.Ellipsis.IsValid() {
			// append(dst, src...): src is a slice or a string
			src := ex.eval(st, e.Args[1])
			arr := tField(base.T, "arr")
			off := tField(base.T, "off")
			ln := tField(base.T, "len")
			narr := ex.fresh("app", arr.S)
			bvCounter++
			k := cnst(fmt.Sprintf("k$%d", bvCounter), SInt)
			ex.assume(st, &Term{Op: "forall", BVars: []*Term{k}, S: SBool, Args: []*Term{tImp(tAnd(mk("<=", SBool, intLit(0), k), mk("<", SBool, k, ln)), tEq(tSelect(narr, k), tSelect(arr, mk("+", SInt, off, k))))}})
			var n *Term
			bvCounter++
			j := cnst(fmt.Sprintf("j$%d", bvCounter), SInt)
			if src.T.S.IsSlice {
				n = tField(src.T, "len")
				ex.assume(st, &Term{Op: "forall", BVars: []*Term{j}, S: SBool, Args: []*Term{tImp(tAnd(mk("<=", SBool, intLit(0), j), mk("<", SBool, j, n)), tEq(tSelect(narr, mk("+", SInt, ln, j)), tSelect(tField(src.T, "arr"), mk("+", SInt, tField(src.T, "off"), j))))}})
			} else {
				n = mk("strlen", SInt, src.T)
				ex.assume(st, mk("<=", SBool, intLit(0), n))
				ex.assume(st, &Term{Op: "forall", BVars: []*Term{j}, S: SBool, Args: []*Term{tImp(tAnd(mk("<=", SBool, intLit(0), j), mk("<", SBool, j, n)), tEq(tSelect(narr, mk("+", SInt, ln, j)), mk("strAt", SInt, src.T, j)))}})
			}
			return tv(tMkDT(base.T.S, narr, intLit(0), mk("+", SInt, ln, n)), base.GoT)
		}
		arr := tField(base.T, "arr")
		off := tField(base.T, "off")
		ln := tField(base.T, "len")
		// result: fresh backing array equal on [off,off+len), new elements appended
		et := base.GoT.Underlying().(*types.Slice).Elem()
		narr := ex.fresh("app", arr.S)
		bvCounter++
		k := cnst(fmt.Sprintf("k$%d", bvCounter), SInt)
		ex.assume(st, &Term{Op: "forall", BVars: []*Term{k}, S: SBool, Args: []*Term{tImp(tAnd(mk("<=", SBool, intLit(0), k), mk("<", SBool, k, ln)), tEq(tSelect(narr, k), tSelect(arr, mk("+", SInt, off, k))))}})
		cur := narr
		_ = cur
		for i, a := range e.Args[1:] {
			v := ex.convertTo(st, ex.eval(st, a), et)
			ex.assume(st, tEq(tSelect(narr, mk("+", SInt, ln, intLit(int64(i)))), coerceTo(v, arr.S.Elem)))
		}
		return tv(tMkDT(base.T.S, narr, intLit(0), mk("+", SInt, ln, intLit(int64(len(e.Args)-1)))), base.GoT)
	case "make":
		t := ex.info.TypeOf(e.Args[0])
		sl, ok := t.Underlying().(*types.Slice)
		if !ok {
			panic(unsupported("make of non-slice at " + where))
		}
		n := ex.eval(st, e.Args[1])
		ex.safeN++
		ex.oblige(st, "safe", fmt.Sprintf("safe.make.%d", ex.safeN), mk("<=", SBool, intLit(0), n.T), where+": make with non-negative length")
		es := ex.w.sortOf(sl.Elem())
		ss := ex.w.Reg.slice(es)
		r := tv(tMkDT(ss, ex.constArray(ex.zeroOfSort(es), es), intLit(0), n.T), t)
		r.FreshSlice = true
		return r
	case "copy":
		dst := ex.eval(st, e.Args[0])
		src := ex.eval(st, e.Args[1])
		if !dst.T.S.IsSlice || !src.T.S.IsSlice {
			panic(unsupported("copy of non-slices at " + where))
		}
		// new backing array: copied prefix from src, everything else as before (destination assumed unaliased: A-GO, checked by govframe)
		darr, doff, dlen := tField(dst.T, "arr"), tField(dst.T, "off"), tField(dst.T, "len")
		sarr, soff, slen := tField(src.T, "arr"), tField(src.T, "off"), tField(src.T, "len")
		n := ex.define("ncopy", tIte(mk("<=", SBool, dlen, slen), dlen, slen))
		narr := ex.fresh("copied", darr.S)
		bvCounter++
		k := cnst(fmt.Sprintf("k$%d", bvCounter), SInt)
		inRange := tAnd(mk("<=", SBool, doff, k), mk("<", SBool, k, mk("+", SInt, doff, n)))
		ex.assume(st, &Term{Op: "forall", BVars: []*Term{k}, S: SBool, Args: []*Term{tEq(tSelect(narr, k), tIte(inRange, tSelect(sarr, mk("+", SInt, soff, mk("-", SInt, k, doff))), tSelect(darr, k)))}})
		nv := tv(tMkDT(dst.T.S, narr, doff, dlen), dst.GoT)
		nv.FreshSlice = dst.FreshSlice
		ex.assignTo(st, e.Args[0], nv)
		return tv(n, types.Typ[types.Int])
	case "new":
		t := ex.info.TypeOf(e.Args[0])
		if isStructNamed(t) {
			return tv(ex.allocObj(st, namedOf(t)), types.NewPointer(t))
		}
	case "min", "max":
		a := ex.eval(st, e.Args[0])
		b := ex.eval(st, e.Args[1])
		a, b = ex.coerceNum(a, b.T.S), ex.coerceNum(b, a.T.S)
		op := "<="
		if name == "max" {
			op = ">="
		}
		return tv(tIte(mk(op, SBool, a.T, b.T), a.T, b.T), a.GoT)
	}
	panic(unsupported("builtin " + name + " at " + where))
}

// externKey names a dependency function in contracts: "gjson.Result.ForEach", "gjson.Valid", "strings.TrimSpace".
func externKey(obj *types.Func) string {
	sig := obj.Type().(*types.Signature)
	if sig.Recv() != nil {
		return obj.Pkg().Name() + "." + recvTypeName(sig.Recv().Type()) + "." + obj.Name()
	}
	return obj.Pkg().Name() + "." + obj.Name()
}

// callExtern: a call into a dependency. With an `extern` contract: the modular call rule (assumed contract).
// Without one, for the pure packages listed: a deterministic uninterpreted function of receiver and arguments.
func (ex *Exec) callExtern(st *State, obj *types.Func, sel *ast.SelectorExpr, e *ast.CallExpr) *Val {
	key := externKey(obj)
	where := ex.pos(e)
	sig := obj.Type().(*types.Signature)
	var recv *Val
	if sig.Recv() != nil {
		recv = ex.eval(st, sel.X)
	}
	if cfc := ex.w.CS.Funcs["ext."+key]; cfc != nil {
		cfi := &FuncInfo{Key: "ext." + key, Pkg: ex.fi.Pkg, Obj: obj, Sig: sig, Recv: sig.Recv()}
		var args []*Val
		for i, a := range e.Args {
			v := ex.eval(st, a)
			if i < sig.Params().Len() {
				v = ex.convertTo(st, v, sig.Params().At(i).Type())
			}
			args = append(args, v)
		}
		ex.assumedCalls[cfi.Key] = true
		return ex.applyContract(st, cfi, cfc, recv, args, where)
	}
	switch obj.Pkg().Path() {
	case "github.com/tidwall/gjson", "github.com/tidwall/pretty", "github.com/tidwall/sjson", "strings", "errors", "fmt", "strconv", "bytes":
	default:
		return nil
	}
	if obj.Pkg().Path() == "strconv" && strings.HasPrefix(obj.Name(), "Append") {
		return nil
	}
	var ts []*Term
	if recv != nil {
		ts = append(ts, recv.T)
	}
	for _, a := range e.Args {
		v := ex.eval(st, a)
		if v.Fn != nil || v.FnObj != nil {
			panic(unsupported("closure passed to " + key + " without an extern contract at " + where))
		}
		ts = append(ts, v.T)
	}
	ex.assumedCalls["ext."+key+" (uninterpreted pure function)"] = true
	n := sig.Results().Len()
	mkRes := func(i int) *Val {
		rt := sig.Results().At(i).Type()
		name := "ext_" + sanitize(key)
		if n > 1 {
			name += fmt.Sprintf("_%d", i)
		}
		var t *Term
		if len(ts) == 0 {
			t = cnst(name, ex.w.sortOf(rt))
		} else {
			t = mk(name, ex.w.sortOf(rt), ts...)
		}
		v := tv(t, rt)
		if key == "fmt.Errorf" || key == "errors.New" {
			ex.assume(st, tNot(tEq(t, intLit(0))))
		}
		if b, ok := rt.Underlying().(*types.Basic); ok && b.Info()&types.IsString != 0 {
			ex.assume(st, mk("<=", SBool, intLit(0), mk("strlen", SInt, t)))
		}
		return v
	}
	if n == 0 {
		return tv(intLit(0), nil)
	}
	if n == 1 {
		return mkRes(0)
	}
	var rs []*Val
	for i := 0; i < n; i++ {
		rs = append(rs, mkRes(i))
	}
	return &Val{Tuple: rs, T: intLit(0), Mag: -1}
}

func (ex *Exec) evalExternal(st *State, obj *types.Func, sel *ast.SelectorExpr, e *ast.CallExpr) *Val {
	where := ex.pos(e)
	full := obj.Pkg().Path() + "." + obj.Name()
	f64 := types.Typ[types.Float64]
	switch full {
	case "math.Inf":
		s := ex.eval(st, e.Args[0])
		if s.Lit {
			if s.T.Op == "-" {
				return tv(cnst("ninf", SReal), f64)
			}
			return tv(cnst("pinf", SReal), f64)
		}
		pos := mk(">=", SBool, s.T, intLit(0))
		v := tv(tIte(pos, cnst("pinf", SReal), cnst("ninf", SReal)), f64)
		return v
	case "math.Nextafter":
		x := ex.eval(st, e.Args[0])
		y := ex.eval(st, e.Args[1])
		if ex.arith != "exact" {
			return tv(mk("nextafter", SReal, x.T, y.T), f64)
		}
		// A-NUDGE: toward +Inf from an in-domain integer: x + eps, 0 < eps <= 2^-32
		if y.T.Op != "pinf" {
			panic(unsupported("Nextafter towards something other than +Inf at " + where))
		}
		eps := cnst("eps", SReal)
		ex.assume(st, tAnd(mk("<", SBool, realLit("0"), eps), mk("<=", SBool, eps, mk("/", SReal, realLit("1"), realLit("4294967296")))))
		ex.notes = append(ex.notes, where+": math.Nextafter(y,+Inf) modelled as y+eps, 0<eps<=2^-32 (A-NUDGE)")
		r := tv(mk("+", SReal, x.T, eps), f64)
		r.Mag = x.Mag
		r.Inexact = true
		return r
	case "math.IsNaN":
		x := ex.eval(st, e.Args[0])
		if x.Cls != nil {
			return tv(tEq(x.Cls, intLit(3)), types.Typ[types.Bool])
		}
		return tv(mk("isnan", SBool, x.T), types.Typ[types.Bool])
	case "math.IsInf":
		x := ex.eval(st, e.Args[0])
		s := ex.eval(st, e.Args[1])
		return tv(mk("isinf", SBool, x.T, s.T), types.Typ[types.Bool])
	case "math.Float64frombits":
		x := ex.eval(st, e.Args[0])
		return tv(mk("f64frombits", SReal, x.T), f64)
	case "math.Float64bits":
		x := ex.eval(st, e.Args[0])
		return tv(mk("f64bits", SInt, x.T), types.Typ[types.Uint64])
	}
	if obj.Pkg().Path() == "encoding/binary" && strings.HasPrefix(obj.Name(), "PutUint") {
		// binary.LittleEndian.PutUintNN(slice, v): little-endian bytes of v stored into the slice's array (A-BINARY).
		var n int64
		switch obj.Name() {
		case "PutUint16":
			n = 2
		case "PutUint32":
			n = 4
		default:
			panic(unsupported("binary." + obj.Name() + " at " + where))
		}
		data := ex.eval(st, e.Args[0])
		v := ex.eval(st, e.Args[1])
		arr, off, ln := tField(data.T, "arr"), tField(data.T, "off"), tField(data.T, "len")
		ex.safeN++
		ex.oblige(st, "safe", fmt.Sprintf("safe.index.%d", ex.safeN), mk(">=", SBool, ln, intLit(n)), where+fmt.Sprintf(": binary.%s needs %d bytes", obj.Name(), n))
		narr := arr
		div := int64(1)
		for i := int64(0); i < n; i++ {
			b := mk("mod", SInt, mk("div", SInt, v.T, intLit(div)), intLit(256))
			narr = tStore(narr, mk("+", SInt, off, intLit(i)), b)
			div *= 256
		}
		// write back into the root local slice variable
		root := e.Args[0]
		for {
			if se, ok := root.(*ast.SliceExpr); ok {
				root = se.X
				continue
			}
			if pe, ok := root.(*ast.ParenExpr); ok {
				root = pe.X
				continue
			}
			break
		}
		id, ok := root.(*ast.Ident)
		if !ok {
			panic(unsupported("binary.Put into something other than a local slice at " + where))
		}
		robj := ex.info.ObjectOf(id)
		cur := ex.lookupVar(st, robj)
		nv := tv(tMkDT(cur.T.S, ex.define("arr", narr), tField(cur.T, "off"), tField(cur.T, "len")), cur.GoT)
		nv.FreshSlice = cur.FreshSlice
		st.vars[robj] = nv
		ex.notes = append(ex.notes, where+": binary.Put writes the local slice's backing array in place (slice assumed unaliased: A-GO)")
		return tv(intLit(0), nil)
	}
	if strings.HasPrefix(full, "encoding/binary.") || obj.Pkg().Path() == "encoding/binary" {
		// binary.LittleEndian.UintNN(slice)
		data := ex.eval(st, e.Args[0])
		arr, off, ln := tField(data.T, "arr"), tField(data.T, "off"), tField(data.T, "len")
		var n int64
		switch obj.Name() {
		case "Uint16":
			n = 2
		case "Uint32":
			n = 4
		case "Uint64":
			n = 8
		default:
			panic(unsupported("binary." + obj.Name() + " at " + where))
		}
		ex.safeN++
		ex.oblige(st, "safe", fmt.Sprintf("safe.index.%d", ex.safeN), mk(">=", SBool, ln, intLit(n)), where+fmt.Sprintf(": binary.%s needs %d bytes", obj.Name(), n))
		if n == 8 {
			return tv(mk("le64", SInt, arr, off), types.Typ[types.Uint64])
		}
		// little endian value as arithmetic over bytes
		var sum *Term
		mul := int64(1)
		for i := int64(0); i < n; i++ {
			b := tSelect(arr, mk("+", SInt, off, intLit(i)))
			ex.assume(st, tAnd(mk("<=", SBool, intLit(0), b), mk("<=", SBool, b, intLit(255))))
			term := b
			if mul > 1 {
				term = mk("*", SInt, intLit(mul), b)
			}
			if sum == nil {
				sum = term
			} else {
				sum = mk("+", SInt, sum, term)
			}
			mul *= 256
		}
		var gt types.Type = types.Typ[types.Uint32]
		if n == 2 {
			gt = types.Typ[types.Uint16]
		}
		return tv(ex.define("le", sum), gt)
	}
	if obj.Pkg().Path() == "math" {
		// any other math function: a deterministic uninterpreted function of its arguments (A-MATH)
		sig := obj.Type().(*types.Signature)
		if sig.Results().Len() == 1 {
			var ts []*Term
			for _, a := range e.Args {
				v := ex.eval(st, a)
				if isFloat(ex.info.TypeOf(a)) {
					v = ex.coerceNum(v, SReal)
				}
				ts = append(ts, v.T)
			}
			rt := sig.Results().At(0).Type()
			ex.notes = append(ex.notes, where+": math."+obj.Name()+" modelled as an uninterpreted deterministic function (A-MATH)")
			r := tv(mk("ext_math_"+obj.Name(), ex.w.sortOf(rt), ts...), rt)
			r.Inexact = true
			return r
		}
	}
	panic(unsupported("external call " + full + " at " + where))
}

// applyContract: modular call rule.
func (ex *Exec) applyContract(st *State, cfi *FuncInfo, cfc *FuncContract, recv *Val, args []*Val, where string) *Val {
	cn := ex.callN
	ex.callN++
	rn, pns := paramNames(cfi)
	names := map[string]*Val{}
	oldNames := map[string]*Val{}
	if recv != nil {
		names[rn] = recv
		names["self"] = recv
	}
	var closure *Val
	for i, a := range args {
		if i >= len(pns) {
			break
		}
		if a.Fn != nil || a.FnObj != nil {
			closure = a
			continue
		}
		if (a.GoT == nil || isUntypedNil(a.GoT)) && i < cfi.Sig.Params().Len() && a.Loc == nil && a.T != nil {
			// an untyped constant (nil literal): the contract sees it at the parameter's type
			b := *a
			b.GoT = cfi.Sig.Params().At(i).Type()
			a = &b
		}
		names[pns[i]] = a
	}
	// pointer-to-local args: bind *name
	type cellArg struct {
		pname string
		obj   types.Object
		hb    *heapBase
	}
	var cells []cellArg
	bindCell := func(pname string, a *Val) {
		if a != nil && a.LocHeap != nil {
			cur := ex.fieldVal(st, a.LocHeap.ref, a.LocHeap.owner, a.LocHeap.field)
			names["*"+pname] = cur
			oldNames["*"+pname] = cur
			cells = append(cells, cellArg{pname: pname, hb: a.LocHeap})
			return
		}
		if a != nil && a.Loc != nil {
			cur := ex.lookupVar(st, a.Loc)
			names["*"+pname] = cur
			oldNames["*"+pname] = cur
			if _, isStruct := a.Loc.Type().Underlying().(*types.Struct); isStruct {
				names[pname] = cur // struct local passed by address: spec sees the value
			}
			cells = append(cells, cellArg{pname: pname, obj: a.Loc})
		}
	}
	if recv != nil {
		bindCell(rn, recv)
	}
	for i, a := range args {
		if i < len(pns) {
			bindCell(pns[i], a)
		}
	}
	calleePkg := shortPkg(cfi.Pkg.PkgPath)
	preHeap := map[string]*Val{}
	for k, v := range st.ghost {
		if strings.HasPrefix(k, "H:") {
			preHeap[k] = v
		}
	}
	preHeapOf := func(g *Term) *Term {
		if v, ok := preHeap["H:"+g.Op]; ok {
			return v.T
		}
		return g
	}
	env := &SpecEnv{names: names, pkg: calleePkg, w: ex.w, heapOf: preHeapOf}
	if cfc.Iter != nil {
		// ghost protocol state is visible to callee contract
		if closure != nil && closure.FnObj != nil && ex.iterState {
			names["seen"] = st.ghost["seen"]
			names["stopped"] = st.ghost["stopped"]
		}
	}
	for i, r := range cfc.Requires {
		g := ex.w.trSpec(r.E, env).T
		ex.oblige(st, "pre", fmt.Sprintf("pre.call%d.%s", cn, clauseName(r, i)), g, where+": precondition of "+cfi.Key+": "+r.Src)
	}
	if cfc.Trusted {
		ex.assumedCalls[cfi.Key] = true
	}
	if cfi != ex.fi && ex.fi != nil && ex.w.sameSCC(cfi, ex.fi) {
		// mutual recursion (static call cycle): the callee's measure at the call must be lexicographically below the
		// caller's measure at entry; every function on the cycle needs a `decreases` clause
		if len(cfc.DecLex) > 0 && ex.fc != nil && len(ex.fc.DecLex) > 0 {
			eenv := ex.specEnv(ex.entry, nil)
			var m1, m0 []*Term
			for _, d := range cfc.DecLex {
				m1 = append(m1, ex.w.trSpec(d, env).T)
			}
			for _, d := range ex.fc.DecLex {
				m0 = append(m0, ex.w.trSpec(d, eenv).T)
			}
			for len(m1) < len(m0) {
				m1 = append(m1, intLit(0))
			}
			for len(m0) < len(m1) {
				m0 = append(m0, intLit(0))
			}
			goal := lexLess(m1, m0)
			for _, t := range m1 {
				goal = tAnd(goal, mk("<=", SBool, intLit(0), t))
			}
			ex.oblige(st, "dec", fmt.Sprintf("dec.rec.call%d", cn), goal, where+": call on a recursion cycle decreases the lexicographic measure of "+cfi.Key+" below that of "+ex.fi.Key)
		} else {
			o := ex.oblige(st, "dec", fmt.Sprintf("dec.rec.call%d", cn), tFalse, where+": "+cfi.Key+" and "+ex.fi.Key+" are mutually recursive: both need a decreases clause")
			o.Static = "no decreases clause on a recursion cycle"
		}
	}
	if cfi == ex.fi {
		// recursive call: the measure must be non-negative and strictly smaller than at entry
		if len(cfc.DecLex) > 1 {
			eenv := ex.specEnv(ex.entry, nil)
			var m1, m0 []*Term
			for _, d := range cfc.DecLex {
				m1 = append(m1, ex.w.trSpec(d, env).T)
				m0 = append(m0, ex.w.trSpec(d, eenv).T)
			}
			goal := lexLess(m1, m0)
			for _, t := range m1 {
				goal = tAnd(goal, mk("<=", SBool, intLit(0), t))
			}
			ex.oblige(st, "dec", fmt.Sprintf("dec.rec.call%d", cn), goal, where+": recursive call decreases the lexicographic measure")
		} else if cfc.Decreases != nil {
			m1 := ex.w.trSpec(cfc.Decreases, env).T
			eenv := ex.specEnv(ex.entry, nil)
			m0 := ex.w.trSpec(cfc.Decreases, eenv).T
			ex.oblige(st, "dec", fmt.Sprintf("dec.rec.call%d", cn), tAnd(mk("<=", SBool, intLit(0), m1), mk("<", SBool, m1, m0)), where+": recursive call decreases the measure "+cfc.Decreases.String())
		} else {
			o := ex.oblige(st, "dec", fmt.Sprintf("dec.rec.call%d", cn), tFalse, where+": recursive function has no decreases clause")
			o.Static = "no decreases clause"
		}
	}
	// iter protocol
	if cfc.Iter != nil && closure != nil {
		if closure.Fn != nil {
			return ex.callWithClosure(st, cn, cfi, cfc, env, closure, where)
		}
		return ex.callForwardIter(st, cn, cfi, cfc, env, where)
	}
	// results
	rnames := resultNames(cfi.Sig)
	var rvals []*Val
	post := map[string]*Val{}
	for k, v := range names {
		post[k] = v
	}
	for i, nm := range rnames {
		rt := cfi.Sig.Results().At(i).Type()
		c := ex.fresh("r_"+cfi.Obj.Name(), ex.w.sortOf(rt))
		v := tv(c, rt)
		if isIntType(rt) {
			ex.assume(st, ex.intRange(c, rt))
		}
		ex.assume(st, ex.ptrTypeFact(c, rt))
		rvals = append(rvals, v)
		post[nm] = v
		if len(rnames) == 1 {
			post["result"] = v
		}
	}
	// assigned cells
	for _, ca := range cells {
		assigned := false
		for _, a := range cfc.Assigns {
			if a == "*"+ca.pname || strings.HasPrefix(a, ca.pname+".") || a == ca.pname {
				assigned = true
			}
		}
		if assigned && ca.hb != nil {
			cur := ex.fieldVal(st, ca.hb.ref, ca.hb.owner, ca.hb.field)
			nv := tv(ex.fresh("cell_"+ca.pname, cur.T.S), cur.GoT)
			ex.assume(st, ex.ptrTypeFact(nv.T, cur.GoT))
			if ex.allocates && nv.T.S.Eq(SRef) {
				ex.assume(st, tOr(tEq(nv.T, intLit(0)), ex.isAlloc(st, nv.T)))
			}
			ex.setField(st, ca.hb.ref, ca.hb.owner, ca.hb.field, nv, where)
			post["*"+ca.pname] = nv
			continue
		}
		if assigned {
			cur := ex.lookupVar(st, ca.obj)
			nv := tv(ex.fresh(ca.obj.Name(), cur.T.S), cur.GoT)
			st.vars[ca.obj] = nv
			post["*"+ca.pname] = nv
			if _, isStruct := ca.obj.Type().Underlying().(*types.Struct); isStruct {
				post[ca.pname] = nv
			}
		}
	}
	// heap fields the callee may modify become unknown; allocation only grows
	for _, m := range cfc.Modifies {
		g := ex.w.heapByName(m)
		if g == nil {
			panic("modifies: unknown heap field " + m + " in contract of " + cfi.Key)
		}
		st.ghost["H:"+g.Op] = tv(ex.fresh("heap_"+strings.TrimPrefix(g.Op, "H_"), g.S), nil)
		ex.heapTouched[g.Op] = g
	}
	if ex.allocates || len(cfc.Modifies) > 0 {
		old := ex.allocTerm(st)
		na := ex.fresh("alloc", old.S)
		bvCounter++
		rr := cnst(fmt.Sprintf("r$%d", bvCounter), SRef)
		st.ghost["H:$alloc"] = tv(na, nil)
		ex.assume(st, &Term{Op: "forall", BVars: []*Term{rr}, S: SBool, Args: []*Term{tImp(tSelect(old, rr), tSelect(na, rr))}})
		if os.Getenv("GOVC_NONILALLOC") == "" {
			ex.assume(st, tNot(tSelect(na, intLit(0)))) // nil is never an allocated object
		}
		post["$oldalloc"] = tv(old, nil)
	}
	var gbv []*Term
	for _, g := range cfc.Ghosts {
		gs, gt := ex.w.resolveSpecType(calleePkg, g.Type)
		bvCounter++
		c := cnst(fmt.Sprintf("%s$%d", g.Name, bvCounter), gs)
		gbv = append(gbv, c)
		post[g.Name] = tv(c, gt)
	}
	// witness names ($s, $t ..) of the callee's ensures are existential for the caller: fresh constants per call
	for _, c := range cfc.Ensures {
		for _, nm := range dollarNames(c.Src) {
			if nm == "$alloc" || nm == "$oldalloc" {
				continue
			}
			if _, ok := post[nm]; !ok {
				post[nm] = tv(ex.fresh("wit_"+strings.TrimPrefix(nm, "$"), SReal), types.Typ[types.Float64])
			}
		}
	}
	penv := &SpecEnv{names: post, pkg: calleePkg, w: ex.w, heapOf: heapOfState(st), old: &SpecEnv{names: mergeNames(names, oldNames), pkg: calleePkg, w: ex.w, heapOf: preHeapOf}}
	// pointer / object results of an allocating callee are fresh or pre-existing objects
	for _, rv := range rvals {
		if rv.T.S.Eq(SRef) && !isIntType(rv.GoT) && (ex.allocates || len(cfc.Modifies) > 0) {
			ex.assume(st, tOr(tEq(rv.T, intLit(0)), ex.isAlloc(st, rv.T)))
		}
	}
	for _, c := range cfc.Ensures {
		t := ex.w.trSpec(c.E, penv).T
		if len(gbv) > 0 && mentionsAny(t, gbv) {
			t = &Term{Op: "forall", BVars: gbv, S: SBool, Args: []*Term{t}}
		}
		ex.assume(st, t)
	}
	if cfc.PureAs != "" && len(rvals) == 1 {
		// determinism: the result is a mathematical function of receiver and arguments
		sf := ex.w.findSpec(calleePkg, cfc.PureAs)
		if sf == nil || sf.Body != nil {
			panic("pureas: " + cfc.PureAs + " must be a spec function without body")
		}
		var ts []*Term
		if recv != nil {
			ts = append(ts, recv.T)
		}
		for _, a := range args {
			if a.Fn == nil && a.FnObj == nil {
				ts = append(ts, a.T)
			}
		}
		if len(ts) != len(sf.Params) {
			panic("pureas: arity mismatch for " + cfc.PureAs)
		}
		for i := range ts {
			ps, _ := ex.w.resolveSpecType(sf.Pkg, sf.Params[i].Type)
			if ts[i].S.Kind == KInt && ps.Kind == KReal {
				ts[i] = toReal(ts[i])
			}
		}
		rs, _ := ex.w.resolveSpecType(sf.Pkg, sf.Ret)
		ex.assume(st, tEq(rvals[0].T, mk(specFuncSMTName(sf), rs, ts...)))
	}
	if len(rvals) == 0 {
		return tv(intLit(0), nil)
	}
	if len(rvals) == 1 {
		return rvals[0]
	}
	return &Val{Tuple: rvals, T: intLit(0), Mag: -1}
}

func mergeNames(a, b map[string]*Val) map[string]*Val {
	m := map[string]*Val{}
	for k, v := range a {
		m[k] = v
	}
	for k, v := range b {
		m[k] = v
	}
	return m
}

// ---------------------------------------------------------------- iteration protocol

// callbackCall: the function under verification calls its callback parameter.
func (ex *Exec) callbackCall(st *State, cb *Val, e *ast.CallExpr) *Val {
	where := ex.pos(e)
	ip := ex.fc.Iter
	if ip == nil || cb.FnObj.Name() != ip.Param {
		panic(unsupported("call of function-typed parameter without iter protocol at " + where))
	}
	cn := ex.callN
	ex.callN++
	var args []*Val
	for _, a := range e.Args {
		args = append(args, ex.eval(st, a))
	}
	// find which protocol arg is the index variable itself
	idxPos := -1
	for i, a := range ip.Args {
		if a.Kind == "ident" && a.Name == ip.IdxVar {
			idxPos = i
		}
	}
	var idx *Val
	if cs := ex.fc.Calls[cn]; cs != nil && cs.At != nil {
		var extra map[string]*Val
		if n := len(ex.closureIdx); n > 0 {
			extra = map[string]*Val{"$idx": tv(ex.closureIdx[n-1], types.Typ[types.Int])} // index of the enclosing callee iteration
		}
		idx = ex.specVal(st, cs.At, extra)
	} else if idxPos >= 0 {
		idx = args[idxPos]
	} else if ip.At != nil {
		idx = ex.specVal(st, ip.At, nil)
	} else {
		panic("iter protocol needs the index itself among args, or an `at <expr>` part giving the ghost index at the call site")
	}
	pextra := map[string]*Val{ip.IdxVar: idx}
	for obj, v := range ex.entry.vars {
		if _, isParam := obj.(*types.Var); isParam {
			pextra[obj.Name()] = v // the protocol speaks about the parameters' entry values
		}
	}
	env := ex.specEnv(st, pextra)
	seen := st.ghost["seen"].T
	stopped := st.ghost["stopped"].T
	ex.oblige(st, "proto", fmt.Sprintf("proto.call%d.notstopped", cn), tNot(stopped), where+": no callback after the callback returned false")
	ex.oblige(st, "proto", fmt.Sprintf("proto.call%d.dom", cn), ex.w.trSpec(ip.Dom, env).T, where+": reported index is in the domain")
	ex.oblige(st, "proto", fmt.Sprintf("proto.call%d.match", cn), ex.w.trSpec(ip.Match, env).T, where+": reported index matches the query")
	ex.oblige(st, "proto", fmt.Sprintf("proto.call%d.once", cn), tNot(tSelect(seen, idx.T)), where+": index reported at most once")
	for i, a := range ip.Args {
		if i == idxPos {
			continue
		}
		want := ex.w.trSpec(a, env)
		ex.oblige(st, "proto", fmt.Sprintf("proto.call%d.arg%d", cn, i), tEq(args[i].T, want.T), where+": callback argument equals "+a.String())
	}
	st.ghost["seen"] = tv(ex.define("seen", tStore(seen, idx.T, tTrue)), nil)
	r := ex.fresh("cbret", SBool)
	st.ghost["stopped"] = tv(tNot(r), nil)
	return tv(r, types.Typ[types.Bool])
}

// callForwardIter: call to another protocol function passing our callback parameter along.
func (ex *Exec) callForwardIter(st *State, cn int, cfi *FuncInfo, cfc *FuncContract, env *SpecEnv, where string) *Val {
	ip := cfc.Iter
	seen := st.ghost["seen"].T
	stopped := st.ghost["stopped"].T
	var shift *Term
	if cs := ex.fc.Calls[cn]; cs != nil && cs.Shift != nil {
		shift = ex.specVal(st, cs.Shift, nil).T
	}
	shiftIdx := func(j *Term) *Term {
		if shift == nil {
			return j
		}
		return mk("+", SInt, j, shift)
	}
	ex.oblige(st, "proto", fmt.Sprintf("proto.call%d.notstopped", cn), tNot(stopped), where+": no search continues after the callback returned false")
	{
		pst := st.clone()
		j := ex.fresh("sk_j", SInt)
		jv := tv(j, types.Typ[types.Int])
		hx := map[string]*Val{"$j": jv}
		for obj, v := range ex.entry.vars {
			if _, isParam := obj.(*types.Var); isParam {
				hx[obj.Name()] = v
			}
		}
		for k, u := range ex.fc.ProtoUses {
			if tg := ex.fc.ProtoTargets[k]; tg == "" || tg == fmt.Sprintf("call%d", cn) {
				ex.tryApplyLemma(pst, u, hx)
			}
		}
		d := ex.w.trSpec(ip.Dom, env.with(map[string]*Val{ip.IdxVar: jv})).T
		ex.oblige(pst, "proto", fmt.Sprintf("proto.call%d.domfresh", cn), tImp(d, tNot(tSelect(seen, shiftIdx(j)))), where+": callee's domain has not been reported yet")
		// the callee reports, for its index j, the arguments our own protocol promises for index j+shift
		if mine := ex.fc.Iter; mine != nil {
			m := tAnd(d, ex.w.trSpec(ip.Match, env.with(map[string]*Val{ip.IdxVar: jv})).T)
			myEnv := ex.specEnv(pst, hx).with(map[string]*Val{mine.IdxVar: tv(shiftIdx(j), types.Typ[types.Int])})
			for k := range ip.Args {
				if k >= len(mine.Args) {
					break
				}
				a := ex.w.trSpec(ip.Args[k], env.with(map[string]*Val{ip.IdxVar: jv}))
				b := ex.w.trSpec(mine.Args[k], myEnv)
				if a.T.S.Eq(b.T.S) {
					ex.oblige(pst, "proto", fmt.Sprintf("proto.call%d.fwdarg%d", cn, k), tImp(m, tEq(a.T, b.T)), where+": forwarded callback argument agrees with this function's protocol")
				}
			}
		}
	}
	seen1 := ex.fresh("seen", seen.S)
	stopped1 := ex.fresh("stopped", SBool)
	bvCounter++
	i := cnst(fmt.Sprintf("%s$%d", ip.IdxVar, bvCounter), SInt)
	// the callee's index i corresponds to the caller's index i + shift
	ci := i
	if shift != nil {
		ci = mk("-", SInt, i, shift)
	}
	ienv := env.with(map[string]*Val{ip.IdxVar: tv(ci, types.Typ[types.Int])})
	dm := tAnd(ex.w.trSpec(ip.Dom, ienv).T, ex.w.trSpec(ip.Match, ienv).T)
	ex.assume(st, tOr(stopped1, &Term{Op: "forall", BVars: []*Term{i}, S: SBool, Args: []*Term{tImp(dm, tSelect(seen1, i))}}))
	ex.assume(st, &Term{Op: "forall", BVars: []*Term{i}, S: SBool, Args: []*Term{tAnd(tImp(tSelect(seen1, i), tOr(tSelect(seen, i), dm)), tImp(tSelect(seen, i), tSelect(seen1, i)))}})
	st.ghost["seen"] = tv(seen1, nil)
	st.ghost["stopped"] = tv(stopped1, nil)
	// explicit results / ensures
	rnames := resultNames(cfi.Sig)
	post := map[string]*Val{}
	for k, v := range env.names {
		post[k] = v
	}
	post["seen"] = st.ghost["seen"]
	post["stopped"] = st.ghost["stopped"]
	var rvals []*Val
	for j, nm := range rnames {
		rt := cfi.Sig.Results().At(j).Type()
		c := ex.fresh("r_"+cfi.Obj.Name(), ex.w.sortOf(rt))
		v := tv(c, rt)
		rvals = append(rvals, v)
		post[nm] = v
		if len(rnames) == 1 {
			post["result"] = v
		}
	}
	penv := &SpecEnv{names: post, pkg: env.pkg, w: ex.w, old: env, heapOf: env.heapOf}
	for _, c := range cfc.Ensures {
		ex.assume(st, ex.w.trSpec(c.E, penv).T)
	}
	if len(rvals) == 1 {
		return rvals[0]
	}
	return tv(intLit(0), nil)
}

// callWithClosure: caller-side rule for a protocol function called with a function literal.
func (ex *Exec) callWithClosure(st *State, cn int, cfi *FuncInfo, cfc *FuncContract, env *SpecEnv, closure *Val, where string) *Val {
	ip := cfc.Iter
	cs := ex.fc.Calls[cn]
	if cs == nil {
		cs = &CallSpec{}
	}
	lit := closure.Fn
	// nested protocols: the enclosing function has a protocol of its own and the literal calls its callback parameter;
	// `seen`/`stopped` in iterinv/iterstop/use mean the CALLEE's iteration, `oseen`/`ostopped` the enclosing function's ghosts
	nested := ex.fc != nil && ex.fc.Iter != nil && litCallsParam(ex, lit, ex.fc.Iter.Param)
	withOuter := func(s *State, m map[string]*Val) map[string]*Val {
		if ex.fc == nil || ex.fc.Iter == nil {
			return m
		}
		if v, ok := s.ghost["seen"]; ok {
			m["oseen"] = v
		}
		if v, ok := s.ghost["stopped"]; ok {
			m["ostopped"] = v
		}
		return m
	}
	havocOuter := func(s *State) {
		if !nested {
			return
		}
		s.ghost["seen"] = tv(ex.fresh("oseen", s.ghost["seen"].T.S), nil)
		s.ghost["stopped"] = tv(ex.fresh("ostopped", SBool), nil)
	}
	setSort := arraySort(SInt, SBool)
	emptySet := ex.constArray(tFalse, SBool)
	// modified captured variables
	var captured []types.Object
	for _, obj := range ex.assignedVars(lit.Body) {
		if _, ok := st.vars[obj]; ok {
			captured = append(captured, obj)
		}
	}
	// 1. invariant holds initially with seen = {}
	for i, c := range cs.IterInv {
		g := ex.specBool(st, c.E, withOuter(st, map[string]*Val{"seen": tv(emptySet, nil)}))
		ex.oblige(st, "iter", fmt.Sprintf("iter.call%d.init.%s", cn, clauseName(c, i)), g, where+": iterinv holds before the search: "+c.Src)
	}
	// 2. one callback step from an arbitrary state satisfying the invariant
	body := st.clone()
	for _, obj := range captured {
		cur := body.vars[obj]
		body.vars[obj] = tv(ex.fresh(obj.Name(), cur.T.S), cur.GoT)
	}
	if closureWritesHeap(ex, lit) {
		ex.havocHeap(body, lit)
	}
	havocOuter(body)
	seenB := ex.fresh("seen", setSort)
	iB := ex.fresh("idx", SInt)
	ienv := env.with(map[string]*Val{ip.IdxVar: tv(iB, types.Typ[types.Int])})
	ex.assume(body, ex.w.trSpec(ip.Dom, ienv).T)
	ex.assume(body, ex.w.trSpec(ip.Match, ienv).T)
	ex.assume(body, tNot(tSelect(seenB, iB)))
	// seen ⊆ dom∧match
	{
		bvCounter++
		j := cnst(fmt.Sprintf("j$%d", bvCounter), SInt)
		jenv := env.with(map[string]*Val{ip.IdxVar: tv(j, types.Typ[types.Int])})
		ex.assume(body, &Term{Op: "forall", BVars: []*Term{j}, S: SBool, Args: []*Term{tImp(tSelect(seenB, j), tAnd(ex.w.trSpec(ip.Dom, jenv).T, ex.w.trSpec(ip.Match, jenv).T))}})
	}
	for _, c := range cs.IterInv {
		ex.assume(body, ex.specBool(body, c.E, withOuter(body, map[string]*Val{"seen": tv(seenB, nil)})))
	}
	// bind closure params
	pi := 0
	for _, fld := range lit.Type.Params.List {
		for _, nm := range fld.Names {
			obj := ex.info.Defs[nm]
			if pi < len(ip.Args) && obj != nil {
				av := ex.w.trSpec(ip.Args[pi], ienv)
				v := tv(av.T, obj.Type())
				ex.assume(body, ex.readFacts(v))
				body.vars[obj] = v
			}
			pi++
		}
	}
	seenAfter := ex.define("seen", tStore(seenB, iB, tTrue))
	for _, u := range cs.Uses {
		ex.applyLemma(body, u, withOuter(body, map[string]*Val{"seen": tv(seenB, nil), ip.IdxVar: tv(iB, nil), "$idx": tv(iB, nil)}))
	}
	ctx := &closureCtx{}
	ctx.onReturn = func(rs *State, vals []*Val, at ast.Node) {
		r := vals[0].T
		w2 := where
		if at != nil {
			w2 = ex.pos(at)
		}
		cont := rs.clone()
		ex.assume(cont, r)
		for i, c := range cs.IterInv {
			g := ex.specBool(cont, c.E, withOuter(cont, map[string]*Val{"seen": tv(seenAfter, nil)}))
			ex.oblige(cont, "iter", fmt.Sprintf("iter.call%d.step%d.%s", cn, ex.retN, clauseName(c, i)), g, w2+": iterinv re-established when the callback returns true: "+c.Src)
		}
		stop := rs.clone()
		ex.assume(stop, tNot(r))
		for i, c := range cs.IterStop {
			g := ex.specBool(stop, c.E, withOuter(stop, map[string]*Val{"seen": tv(seenAfter, nil)}))
			ex.oblige(stop, "iter", fmt.Sprintf("iter.call%d.stop%d.%s", cn, ex.retN, clauseName(c, i)), g, w2+": iterstop established when the callback returns false: "+c.Src)
		}
		ex.retN++
	}
	closureStack = append(closureStack, ctx)
	savedRet := ex.retN
	ex.retN = 0
	ex.closureIdx = append(ex.closureIdx, iB)
	fl := ex.execBlock(body, lit.Body.List)
	ex.closureIdx = ex.closureIdx[:len(ex.closureIdx)-1]
	ex.retN = savedRet
	closureStack = closureStack[:len(closureStack)-1]
	if fl.normal != nil {
		panic(unsupported("closure falls off its end"))
	}
	// 3. after the call
	for _, obj := range captured {
		cur := st.vars[obj]
		st.vars[obj] = tv(ex.fresh(obj.Name(), cur.T.S), cur.GoT)
	}
	if closureWritesHeap(ex, lit) {
		// heap stores inside the closure: every heap field the function may write is unknown afterwards
		ex.havocHeap(st, lit)
	}
	havocOuter(st)
	seenF := ex.fresh("seen", setSort)
	stoppedF := ex.fresh("stopped", SBool)
	bvCounter++
	j := cnst(fmt.Sprintf("j$%d", bvCounter), SInt)
	jenv := env.with(map[string]*Val{ip.IdxVar: tv(j, types.Typ[types.Int])})
	dm := tAnd(ex.w.trSpec(ip.Dom, jenv).T, ex.w.trSpec(ip.Match, jenv).T)
	var inv []*Term
	for _, c := range cs.IterInv {
		inv = append(inv, ex.specBool(st, c.E, withOuter(st, map[string]*Val{"seen": tv(seenF, nil)})))
	}
	var stopc []*Term
	for _, c := range cs.IterStop {
		stopc = append(stopc, ex.specBool(st, c.E, withOuter(st, map[string]*Val{"seen": tv(seenF, nil)})))
	}
	full := &Term{Op: "forall", BVars: []*Term{j}, S: SBool, Args: []*Term{tEq(tSelect(seenF, j), dm)}}
	ex.assume(st, tImp(tNot(stoppedF), tAnd(append(inv, full)...)))
	ex.assume(st, tImp(stoppedF, tAnd(stopc...)))
	st.ghost["$seen"] = tv(seenF, nil)
	st.ghost["$stopped"] = tv(stoppedF, nil)
	for _, u := range cs.After {
		ex.applyLemma(st, u, withOuter(st, map[string]*Val{"seen": tv(seenF, nil)}))
	}
	// explicit ensures of callee (e.g. result == !stopped)
	rnames := resultNames(cfi.Sig)
	post := map[string]*Val{}
	for k, v := range env.names {
		post[k] = v
	}
	post["seen"] = tv(seenF, nil)
	post["stopped"] = tv(stoppedF, nil)
	var rvals []*Val
	for k, nm := range rnames {
		rt := cfi.Sig.Results().At(k).Type()
		c := ex.fresh("r_"+cfi.Obj.Name(), ex.w.sortOf(rt))
		v := tv(c, rt)
		rvals = append(rvals, v)
		post[nm] = v
		if len(rnames) == 1 {
			post["result"] = v
		}
	}
	penv := &SpecEnv{names: post, pkg: env.pkg, w: ex.w, old: env, heapOf: env.heapOf}
	for _, c := range cfc.Ensures {
		ex.assume(st, ex.w.trSpec(c.E, penv).T)
	}
	if len(rvals) == 1 {
		return rvals[0]
	}
	return tv(intLit(0), nil)
}

func mentionsAny(t *Term, vs []*Term) bool {
	found := false
	t.walk(func(x *Term) {
		if len(x.Args) == 0 {
			for _, v := range vs {
				if v.Op == x.Op {
					found = true
				}
			}
		}
	})
	return found
}

// closureWritesHeap: does the function literal (syntactically) store through a pointer / into an object or call
// something with a modifies clause?
func closureWritesHeap(ex *Exec, lit *ast.FuncLit) bool {
	saved := ex.heapMayWrite
	ex.collectHeapWrites(lit.Body)
	n := len(ex.heapMayWrite)
	ex.heapMayWrite = saved
	return n > 0
}

// contractOfInstance: the verified contract of a `pureas F` function, exported as a fact about the mathematical
// function F:  (domain facts of the arguments && requires)  ==>  ensures[result := F(args), $w := F$w(args)],
// ghosts universally quantified. Sound because the body was verified against that contract for ALL arguments
// satisfying the hypotheses, and the (deterministic, frame-free) result is F(args) by `pureas`.
func (w *World) contractOfInstance(fname string, use *SExpr, env *SpecEnv) *Term {
	var fc *FuncContract
	var fkey string
	for _, k := range w.CS.funcKeys() {
		c := w.CS.Funcs[k]
		if c.PureAs == fname && !c.Trusted && !strings.Contains(k, "@") {
			fc, fkey = c, k
		}
	}
	if fc == nil {
		panic("use contractOf_" + fname + ": no verified function with `pureas " + fname + "`")
	}
	fi := w.Funcs[fkey]
	sf := w.findSpec(fc.Pkg, fname)
	if fi == nil || sf == nil {
		panic("use contractOf_" + fname + ": function or spec function missing")
	}
	rn, pns := paramNames(fi)
	var pnames []string
	if fi.Recv != nil {
		pnames = append(pnames, rn)
	}
	for i, pn := range pns {
		if _, isFn := fi.Sig.Params().At(i).Type().Underlying().(*types.Signature); !isFn {
			pnames = append(pnames, pn)
		}
	}
	if len(use.Args)-1 != len(pnames) {
		panic(fmt.Sprintf("use contractOf_%s: expected %d arguments", fname, len(pnames)))
	}
	names := map[string]*Val{}
	var ts []*Term
	var dom []*Term
	exact := fc.Arith == "" || fc.Arith == "exact"
	for i, pn := range pnames {
		ps, gt := w.resolveSpecType(sf.Pkg, sf.Params[i].Type)
		v := w.trSpec(use.Args[i+1], env)
		t := coerceTo(v, ps)
		names[pn] = tv(t, gt)
		ts = append(ts, t)
		if exact {
			dom = append(dom, exactDomTerm(t))
		}
	}
	if fi.Recv != nil {
		names["self"] = names[rn]
	}
	rs, rgt := w.resolveSpecType(sf.Pkg, sf.Ret)
	res := tv(mk(specFuncSMTName(sf), rs, ts...), rgt)
	names["result"] = res
	for _, nm := range resultNames(fi.Sig) {
		names[nm] = res
	}
	var gbv []*Term
	for _, g := range fc.Ghosts {
		gs, gt := w.resolveSpecType(fc.Pkg, g.Type)
		bvCounter++
		c := cnst(fmt.Sprintf("%s$%d", g.Name, bvCounter), gs)
		gbv = append(gbv, c)
		names[g.Name] = tv(c, gt)
	}
	for _, c := range fc.Ensures {
		for _, nm := range dollarNames(c.Src) {
			if _, ok := names[nm]; !ok {
				names[nm] = tv(mk("W_"+fc.Pkg+"_"+fname+"_"+strings.TrimPrefix(nm, "$"), SReal, ts...), types.Typ[types.Float64])
			}
		}
	}
	fenv := &SpecEnv{names: names, pkg: fc.Pkg, w: w, heapOf: env.heapOf}
	fenv.old = fenv
	var req, ens []*Term
	req = append(req, dom...)
	for _, c := range fc.Requires {
		req = append(req, w.trSpec(c.E, fenv).T)
	}
	for _, c := range fc.Ensures {
		t := w.trSpec(c.E, fenv).T
		if len(gbv) > 0 && mentionsAny(t, gbv) {
			t = &Term{Op: "forall", BVars: gbv, S: SBool, Args: []*Term{t}}
		}
		ens = append(ens, t)
	}
	return tImp(tAnd(req...), tAnd(ens...))
}

// exactDomTerm: the exact-mode domain assumption (integer, |v| <= 2^20) for every float leaf of t.
func exactDomTerm(t *Term) *Term {
	switch t.S.Kind {
	case KReal:
		b := realLit(fmt.Sprint(exactBound))
		return tAnd(mk("is_int", SBool, t), mk("<=", SBool, mk("-", SReal, b), t), mk("<=", SBool, t, b))
	case KDT:
		if t.S.IsSlice {
			return tTrue
		}
		var fs []*Term
		for _, f := range t.S.Fields {
			fs = append(fs, exactDomTerm(tField(t, f.Name)))
		}
		return tAnd(fs...)
	}
	return tTrue
}

// lexLess: a < b in the lexicographic order (same length).
func lexLess(a, b []*Term) *Term {
	if len(a) == 0 {
		return tFalse
	}
	head := mk("<", SBool, a[0], b[0])
	if len(a) == 1 {
		return head
	}
	return tOr(head, tAnd(tEq(a[0], b[0]), lexLess(a[1:], b[1:])))
}

// litCallsParam: does the function literal call the named function-typed parameter of the enclosing function?
func litCallsParam(ex *Exec, lit *ast.FuncLit, param string) bool {
	found := false
	ast.Inspect(lit.Body, func(n ast.Node) bool {
		if ce, ok := n.(*ast.CallExpr); ok {
			if id, ok := ce.Fun.(*ast.Ident); ok && id.Name == param {
				if _, isVar := ex.info.Uses[id].(*types.Var); isVar {
					found = true
				}
			}
		}
		return true
	})
	return found
}

func isUntypedNil(t types.Type) bool {
	b, ok := t.(*types.Basic)
	return ok && b.Kind() == types.UntypedNil
}
