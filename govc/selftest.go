package main

import (
	"encoding/json"
	"flag"
	"fmt"
	"os"
	"os/exec"
	"path/filepath"
	"strings"
	"sync"
)

// Mutant: a deliberate property-breaking (or knowingly equivalent) edit of /repo used to test the engine.
type Mutant struct {
	Name     string `json:"name"`
	Property string `json:"property"`
	File     string `json:"file"`
	Old      string `json:"old"`
	New      string `json:"new"`
	Expect   string `json:"expect"` // substring of a failing obligation name
	Kind     string `json:"kind"`   // kill (default) | equivalent | patch
	Patch    string `json:"patch"`  // path of a diff (kind=patch) relative to /verif
}

func cmdSelftest(args []string) {
	fs := flag.NewFlagSet("selftest", flag.ExitOnError)
	repo := fs.String("repo", "/repo", "repository")
	verif := fs.String("verif", "/verif", "verif dir")
	only := fs.String("only", "", "comma separated mutant names or property ids")
	par := fs.Int("j", 4, "parallel mutants")
	fs.Parse(args)
	b, err := os.ReadFile(filepath.Join(*verif, "selftest", "mutants.json"))
	if err != nil {
		fmt.Println(err)
		os.Exit(2)
	}
	var ms []Mutant
	if err := json.Unmarshal(b, &ms); err != nil {
		fmt.Println("mutants.json:", err)
		os.Exit(2)
	}
	sel := map[string]bool{}
	for _, s := range strings.Split(*only, ",") {
		if s != "" {
			sel[s] = true
		}
	}
	self, _ := os.Executable()
	type outcome struct {
		m    Mutant
		ok   bool
		text string
	}
	var wg sync.WaitGroup
	sem := make(chan struct{}, *par)
	res := make([]outcome, len(ms))
	for i, m := range ms {
		if len(sel) > 0 && !sel[m.Name] && !sel[m.Property] {
			continue
		}
		wg.Add(1)
		go func(i int, m Mutant) {
			defer wg.Done()
			sem <- struct{}{}
			defer func() { <-sem }()
			res[i] = outcome{m: m}
			tmp, err := os.MkdirTemp("", "govc-mutant-")
			if err != nil {
				res[i].text = err.Error()
				return
			}
			defer os.RemoveAll(tmp)
			scratch := filepath.Join(tmp, "repo")
			if out, err := exec.Command("rsync", "-a", "--exclude", ".git", *repo+"/", scratch+"/").CombinedOutput(); err != nil {
				res[i].text = "copy: " + string(out)
				return
			}
			if m.Kind == "patch" {
				cmd := exec.Command("patch", "-p1", "-s", "-i", filepath.Join(*verif, m.Patch))
				cmd.Dir = scratch
				if out, err := cmd.CombinedOutput(); err != nil {
					res[i].text = "patch does not apply: " + string(out)
					return
				}
			} else {
				p := filepath.Join(scratch, m.File)
				src, err := os.ReadFile(p)
				if err != nil {
					res[i].text = err.Error()
					return
				}
				if strings.Count(string(src), m.Old) != 1 {
					res[i].text = fmt.Sprintf("mutation site matches %d times (stale mutant)", strings.Count(string(src), m.Old))
					return
				}
				os.WriteFile(p, []byte(strings.Replace(string(src), m.Old, m.New, 1)), 0o644)
			}
			// the mutant must still compile
			bc := exec.Command("go", "build", "./...")
			bc.Dir = scratch
			bc.Env = append(os.Environ(), "GOFLAGS=-mod=mod", "GOPROXY=off", "GOSUMDB=off", "GOTOOLCHAIN=local")
			if out, err := bc.CombinedOutput(); err != nil {
				res[i].text = "mutant does not compile: " + firstLines(string(out), 4)
				return
			}
			sv := filepath.Join(tmp, "verif")
			os.MkdirAll(sv, 0o755)
			// known findings apply to mutants too
			if kf, err := os.ReadFile(filepath.Join(*verif, "KNOWN_FINDINGS.txt")); err == nil {
				os.WriteFile(filepath.Join(sv, "KNOWN_FINDINGS.txt"), kf, 0o644)
			}
			// the replay tests of known findings
			exec.Command("cp", "-r", filepath.Join(*verif, "known"), filepath.Join(sv, "known")).Run()
			cmd := exec.Command(self, "check", m.Property, "--repo", scratch, "--verif", sv, "--tier", "quick")
			out, _ := cmd.CombinedOutput()
			code := cmd.ProcessState.ExitCode()
			text := string(out)
			viol := strings.Contains(text, "VIOLATION property="+m.Property)
			switch m.Kind {
			case "equivalent":
				res[i].ok = code == 0 && !viol
				if !res[i].ok {
					res[i].text = "equivalent mutant raised an alarm: " + firstLines(text, 6)
				}
			default:
				res[i].ok = code == 1 && viol && (m.Expect == "" || strings.Contains(text, m.Expect))
				if !res[i].ok {
					res[i].text = fmt.Sprintf("exit=%d violation=%v expect=%q: %s", code, viol, m.Expect, lastLines(text, 6))
				} else {
					confirmed := !strings.Contains(text, "no-failing-input-found") || strings.Count(text, "VIOLATION") > strings.Count(text, "no-failing-input-found")
					if confirmed {
						res[i].text = "killed, counterexample replayed on the real code"
					} else {
						res[i].text = "killed (no-failing-input-found)"
					}
				}
			}
		}(i, m)
	}
	wg.Wait()
	bad, n := 0, 0
	for _, r := range res {
		if r.m.Name == "" {
			continue
		}
		n++
		st := "ok  "
		if !r.ok {
			st = "FAIL"
			bad++
		}
		fmt.Printf("%s %-4s %-40s %s\n", st, r.m.Property, r.m.Name, r.text)
	}
	fmt.Printf("selftest: %d mutants, %d as expected, %d not\n", n, n-bad, bad)
	if bad > 0 {
		os.Exit(1)
	}
}

func lastLines(s string, n int) string {
	ls := strings.Split(strings.TrimSpace(s), "\n")
	if len(ls) > n {
		ls = ls[len(ls)-n:]
	}
	return strings.Join(ls, " | ")
}
