package main

import (
	"fmt"
	"sort"
	"strings"
)

// ---------------------------------------------------------------- sorts

type SortKind int

const (
	KBool SortKind = iota
	KInt
	KReal
	KDT    // datatype (Go struct, slice header)
	KArray // Array Idx Elem
	KUnint // uninterpreted sort (strings, opaque)
)

type Sort struct {
	Kind   SortKind
	Name   string // smt name for DT / Unint
	Idx    *Sort
	Elem   *Sort
	Fields []Field // for DT
	// for slices
	IsSlice bool
}

type Field struct {
	Name string
	S    *Sort
}

var (
	SBool = &Sort{Kind: KBool, Name: "Bool"}
	SInt  = &Sort{Kind: KInt, Name: "Int"}
	SReal = &Sort{Kind: KReal, Name: "Real"}
)

func (s *Sort) String() string {
	switch s.Kind {
	case KBool:
		return "Bool"
	case KInt:
		return "Int"
	case KReal:
		return "Real"
	case KArray:
		return "(Array " + s.Idx.String() + " " + s.Elem.String() + ")"
	}
	return s.Name
}

func (s *Sort) Eq(o *Sort) bool {
	if s == o {
		return true
	}
	if s == nil || o == nil {
		return false
	}
	return s.String() == o.String()
}

func (s *Sort) field(name string) (int, *Sort) {
	for i, f := range s.Fields {
		if f.Name == name {
			return i, f.S
		}
	}
	return -1, nil
}

func arraySort(idx, elem *Sort) *Sort { return &Sort{Kind: KArray, Idx: idx, Elem: elem} }

// SortReg keeps all declared datatypes in dependency order.
type SortReg struct {
	byName map[string]*Sort
	order  []*Sort
}

func newSortReg() *SortReg { return &SortReg{byName: map[string]*Sort{}} }

func (r *SortReg) dt(name string, fields []Field) *Sort {
	if s, ok := r.byName[name]; ok {
		return s
	}
	s := &Sort{Kind: KDT, Name: name, Fields: fields}
	r.byName[name] = s
	r.order = append(r.order, s)
	return s
}

func (r *SortReg) unint(name string) *Sort {
	if s, ok := r.byName[name]; ok {
		return s
	}
	s := &Sort{Kind: KUnint, Name: name}
	r.byName[name] = s
	r.order = append(r.order, s)
	return s
}

func (r *SortReg) slice(elem *Sort) *Sort {
	name := "Slice_" + mangle(elem.String())
	if s, ok := r.byName[name]; ok {
		return s
	}
	s := r.dt(name, []Field{{"arr", arraySort(SInt, elem)}, {"off", SInt}, {"len", SInt}})
	s.IsSlice = true
	s.Elem = elem
	return s
}

func mangle(s string) string {
	s = strings.NewReplacer("(", "", ")", "", " ", "_", ".", "_", "*", "p", "[", "", "]", "").Replace(s)
	return s
}

func (r *SortReg) decls() string {
	var b strings.Builder
	for _, s := range r.order {
		if s.Kind == KUnint {
			fmt.Fprintf(&b, "(declare-sort %s 0)\n", s.Name)
			continue
		}
		fmt.Fprintf(&b, "(declare-datatypes ((%s 0)) (((mk_%s", s.Name, s.Name)
		for _, f := range s.Fields {
			fmt.Fprintf(&b, " (%s_%s %s)", s.Name, f.Name, f.S)
		}
		b.WriteString("))))\n")
	}
	return b.String()
}

// ---------------------------------------------------------------- terms

type Term struct {
	Op   string
	Args []*Term
	S    *Sort
	// binder support
	BVars []*Term // for forall/exists
}

func mk(op string, s *Sort, args ...*Term) *Term { return &Term{Op: op, Args: args, S: s} }

func cnst(name string, s *Sort) *Term { return &Term{Op: name, S: s} }

var (
	tTrue  = cnst("true", SBool)
	tFalse = cnst("false", SBool)
)

func intLit(n int64) *Term {
	if n < 0 {
		return mk("-", SInt, cnst(fmt.Sprint(-n), SInt))
	}
	return cnst(fmt.Sprint(n), SInt)
}

func realLit(s string) *Term {
	neg := false
	if strings.HasPrefix(s, "-") {
		neg = true
		s = s[1:]
	}
	if !strings.Contains(s, ".") {
		s += ".0"
	}
	t := cnst(s, SReal)
	if neg {
		return mk("-", SReal, t)
	}
	return t
}

func (t *Term) isTrue() bool  { return t.Op == "true" && len(t.Args) == 0 }
func (t *Term) isFalse() bool { return t.Op == "false" && len(t.Args) == 0 }

func tNot(a *Term) *Term {
	if a.isTrue() {
		return tFalse
	}
	if a.isFalse() {
		return tTrue
	}
	if a.Op == "not" {
		return a.Args[0]
	}
	return mk("not", SBool, a)
}

func tAnd(as ...*Term) *Term {
	var out []*Term
	for _, a := range as {
		if a == nil || a.isTrue() {
			continue
		}
		if a.isFalse() {
			return tFalse
		}
		if a.Op == "and" {
			out = append(out, a.Args...)
		} else {
			out = append(out, a)
		}
	}
	if len(out) == 0 {
		return tTrue
	}
	if len(out) == 1 {
		return out[0]
	}
	return mk("and", SBool, out...)
}

func tOr(as ...*Term) *Term {
	var out []*Term
	for _, a := range as {
		if a == nil || a.isFalse() {
			continue
		}
		if a.isTrue() {
			return tTrue
		}
		if a.Op == "or" {
			out = append(out, a.Args...)
		} else {
			out = append(out, a)
		}
	}
	if len(out) == 0 {
		return tFalse
	}
	if len(out) == 1 {
		return out[0]
	}
	return mk("or", SBool, out...)
}

func tImp(a, b *Term) *Term {
	if a.isTrue() {
		return b
	}
	if a.isFalse() || b.isTrue() {
		return tTrue
	}
	return mk("=>", SBool, a, b)
}

func tEq(a, b *Term) *Term {
	if a == b {
		return tTrue
	}
	return mk("=", SBool, a, b)
}

func tIte(c, a, b *Term) *Term {
	if c.isTrue() {
		return a
	}
	if c.isFalse() {
		return b
	}
	if a == b {
		return a
	}
	if a.S.Kind == KBool {
		if a.isTrue() && b.isFalse() {
			return c
		}
		if a.isFalse() && b.isTrue() {
			return tNot(c)
		}
	}
	return mk("ite", a.S, c, a, b)
}

func tSelect(arr, idx *Term) *Term { return mk("select", arr.S.Elem, arr, idx) }
func tStore(arr, idx, v *Term) *Term {
	return mk("store", arr.S, arr, idx, v)
}

// field access on datatype
func tField(t *Term, name string) *Term {
	i, fs := t.S.field(name)
	if i < 0 {
		panic(fmt.Sprintf("no field %s in %s", name, t.S))
	}
	// simplify constructor application
	if t.Op == "mk_"+t.S.Name && len(t.Args) == len(t.S.Fields) {
		return t.Args[i]
	}
	return mk(t.S.Name+"_"+name, fs, t)
}

func tMkDT(s *Sort, args ...*Term) *Term {
	if len(args) != len(s.Fields) {
		panic("mkDT arity " + s.Name)
	}
	return mk("mk_"+s.Name, s, args...)
}

// functional field update
func tWithField(t *Term, name string, v *Term) *Term {
	args := make([]*Term, len(t.S.Fields))
	for i, f := range t.S.Fields {
		if f.Name == name {
			args[i] = v
		} else {
			args[i] = tField(t, f.Name)
		}
	}
	return tMkDT(t.S, args...)
}

func toReal(t *Term) *Term {
	if t.S.Kind == KReal {
		return t
	}
	if len(t.Args) == 0 && isDigits(t.Op) {
		return cnst(t.Op+".0", SReal)
	}
	if t.Op == "-" && len(t.Args) == 1 && len(t.Args[0].Args) == 0 && isDigits(t.Args[0].Op) {
		return mk("-", SReal, cnst(t.Args[0].Op+".0", SReal))
	}
	return mk("to_real", SReal, t)
}

func isDigits(s string) bool {
	if s == "" {
		return false
	}
	for _, c := range s {
		if c < '0' || c > '9' {
			return false
		}
	}
	return true
}

func (t *Term) String() string {
	var b strings.Builder
	t.write(&b)
	return b.String()
}

func (t *Term) write(b *strings.Builder) {
	if t.Op == "forall" || t.Op == "exists" {
		b.WriteString("(" + t.Op + " (")
		for _, v := range t.BVars {
			fmt.Fprintf(b, "(%s %s)", v.Op, v.S)
		}
		b.WriteString(") ")
		t.Args[0].write(b)
		b.WriteString(")")
		return
	}
	if len(t.Args) == 0 {
		b.WriteString(t.Op)
		return
	}
	b.WriteString("(")
	b.WriteString(t.Op)
	for _, a := range t.Args {
		b.WriteString(" ")
		a.write(b)
	}
	b.WriteString(")")
}

// subst replaces free constants by name.
func (t *Term) subst(m map[string]*Term) *Term {
	if len(m) == 0 {
		return t
	}
	if len(t.Args) == 0 && t.BVars == nil {
		if r, ok := m[t.Op]; ok {
			return r
		}
		return t
	}
	if t.BVars != nil {
		m2 := m
		for _, v := range t.BVars {
			if _, ok := m[v.Op]; ok {
				if &m2 == &m || len(m2) == len(m) {
					m2 = map[string]*Term{}
					for k, x := range m {
						m2[k] = x
					}
				}
				delete(m2, v.Op)
			}
		}
		na := t.Args[0].subst(m2)
		if na == t.Args[0] {
			return t
		}
		return &Term{Op: t.Op, Args: []*Term{na}, S: t.S, BVars: t.BVars}
	}
	changed := false
	args := make([]*Term, len(t.Args))
	for i, a := range t.Args {
		args[i] = a.subst(m)
		if args[i] != a {
			changed = true
		}
	}
	if !changed {
		return t
	}
	return &Term{Op: t.Op, Args: args, S: t.S}
}

// walk visits every subterm.
func (t *Term) walk(f func(*Term)) {
	f(t)
	for _, a := range t.Args {
		a.walk(f)
	}
}

// freeConsts collects names of 0-ary symbols (excluding bound vars and literals).
func (t *Term) freeConsts(out map[string]*Sort, bound map[string]bool) {
	if t.BVars != nil {
		nb := map[string]bool{}
		for k := range bound {
			nb[k] = true
		}
		for _, v := range t.BVars {
			nb[v.Op] = true
		}
		t.Args[0].freeConsts(out, nb)
		return
	}
	if len(t.Args) == 0 {
		if bound[t.Op] || t.Op == "true" || t.Op == "false" {
			return
		}
		c := t.Op[0]
		if (c >= '0' && c <= '9') || c == '-' {
			return
		}
		out[t.Op] = t.S
		return
	}
	for _, a := range t.Args {
		a.freeConsts(out, bound)
	}
}

func sortedKeys[V any](m map[string]V) []string {
	ks := make([]string, 0, len(m))
	for k := range m {
		ks = append(ks, k)
	}
	sort.Strings(ks)
	return ks
}
