package main

import (
	"fmt"
	"go/types"
	"strings"
)

// SpecEnv resolves identifiers inside specification expressions.
type SpecEnv struct {
	bound  map[string]*Val          // quantifier-bound variables (visible inside old(...) too)
	heapOf func(global *Term) *Term // current heap array for a heap field (nil: the entry heap constants)
	names  map[string]*Val
	st     *State // caller state for locals / ghost (may be nil)
	ex     *Exec  // may be nil (spec function bodies, lemmas)
	old    *SpecEnv
	pkg    string
	w      *World
}

func (env *SpecEnv) with(extra map[string]*Val) *SpecEnv {
	n := *env
	n.names = map[string]*Val{}
	for k, v := range env.names {
		n.names[k] = v
	}
	for k, v := range extra {
		n.names[k] = v
	}
	return &n
}

func (env *SpecEnv) lookup(name string) *Val {
	if v, ok := env.names[name]; ok {
		return v
	}
	if env.st != nil {
		if v, ok := env.st.ghost[name]; ok {
			return v
		}
		// locals by name (innermost = latest declared that is live in state)
		var best types.Object
		for obj := range env.st.vars {
			if obj.Name() == name {
				if best == nil || obj.Pos() > best.Pos() {
					best = obj
				}
			}
		}
		if best != nil {
			return env.st.vars[best]
		}
	}
	switch name {
	case "true":
		return tv(tTrue, nil)
	case "false":
		return tv(tFalse, nil)
	case "nil":
		return tv(intLit(0), nil)
	case "pinf":
		return tv(cnst("pinf", SReal), nil)
	case "ninf":
		return tv(cnst("ninf", SReal), nil)
	case "eps":
		return tv(cnst("eps", SReal), nil)
	case "emptyset":
		st := arraySort(SInt, SBool)
		return tv(&Term{Op: "(as const " + st.String() + ")", Args: []*Term{tFalse}, S: st}, nil)
	}
	if name == "$alloc" {
		h := cnst("H_alloc", arraySort(SRef, SBool))
		if env.heapOf != nil {
			if env.st != nil {
				if v, ok := env.st.ghost["H:$alloc"]; ok {
					return tv(v.T, nil)
				}
			}
			if v, ok := env.names["$allocNow"]; ok {
				return v
			}
		}
		return tv(h, nil)
	}
	if name == "$i" || name == "$idx" || name == "$j" {
		panic("spec: " + name + " is not defined at this point")
	}
	if strings.HasPrefix(name, "$") {
		// contract witness without a `ret N let`: default witness 0
		return &Val{T: intLit(0), Lit: true, Mag: -1}
	}
	return nil
}

func specFuncSMTName(sf *SpecFunc) string { return "S_" + sf.Pkg + "_" + sf.Name }

func (w *World) findSpec(pkg, name string) *SpecFunc {
	if sf, ok := w.CS.Specs[pkg+"."+name]; ok {
		return sf
	}
	for _, p := range []string{"geometry", "geo", "geojson"} {
		if sf, ok := w.CS.Specs[p+"."+name]; ok {
			return sf
		}
	}
	return nil
}

func (w *World) findLemma(pkg, name string) *Lemma {
	if l, ok := w.CS.Lemmas[pkg+"."+name]; ok {
		return l
	}
	for _, p := range []string{"geometry", "geo", "geojson"} {
		if l, ok := w.CS.Lemmas[p+"."+name]; ok {
			return l
		}
	}
	return nil
}

func coerceTo(v *Val, s *Sort) *Term {
	if v.T.S.Kind == KInt && s.Kind == KReal {
		return toReal(v.T)
	}
	return v.T
}

func unifyNum(a, b *Val) (*Term, *Term) {
	if a.T.S.Kind == KReal && b.T.S.Kind == KInt {
		return a.T, toReal(b.T)
	}
	if a.T.S.Kind == KInt && b.T.S.Kind == KReal {
		return toReal(a.T), b.T
	}
	return a.T, b.T
}

var bvCounter int

func (w *World) trSpec(e *SExpr, env *SpecEnv) *Val {
	switch e.Kind {
	case "str":
		// a Go string literal: the same constant the executor uses for program literals
		name := "str_" + fmt.Sprintf("%x", e.Name)
		if e.Name == "" {
			name = "str_empty"
		}
		return tv(cnst(name, w.Reg.unint("Str")), types.Typ[types.String])
	case "num":
		if strings.ContainsAny(e.Name, ".") {
			return &Val{T: realLit(e.Name), Lit: true, Mag: -1}
		}
		if strings.HasPrefix(e.Name, "0x") {
			var n int64
			fmt.Sscanf(e.Name, "0x%x", &n)
			return &Val{T: intLit(n), Lit: true, Mag: -1}
		}
		return &Val{T: cnst(e.Name, SInt), Lit: true, Mag: -1}
	case "ident":
		if v := env.lookup(e.Name); v != nil {
			return v
		}
		if sf := w.findSpec(env.pkg, e.Name); sf != nil && len(sf.Params) == 0 {
			rs, gt := w.resolveSpecType(sf.Pkg, sf.Ret)
			return tv(mk(specFuncSMTName(sf), rs), gt)
		}
		if pk := w.Pkgs[env.pkg]; pk != nil {
			if v, ok := pk.Types.Scope().Lookup(e.Name).(*types.Var); ok {
				name := "G_" + mangle(shortPkg(v.Pkg().Path())) + "_" + v.Name()
				return tv(cnst(name, w.sortOf(v.Type())), v.Type())
			}
		}
		panic(fmt.Sprintf("spec: unknown identifier %q (%s)", e.Name, e.Pos))
	case "un":
		if e.Name == "*" {
			if e.Args[0].Kind == "ident" {
				if v := env.lookup("*" + e.Args[0].Name); v != nil {
					return v
				}
			}
			panic("spec: unsupported dereference " + e.String())
		}
		x := w.trSpec(e.Args[0], env)
		if e.Name == "!" {
			return tv(tNot(x.T), nil)
		}
		return tv(mk("-", x.T.S, x.T), x.GoT)
	case "bin":
		return w.trSpecBin(e, env)
	case "field":
		// package-qualified?
		if e.Args[0].Kind == "ident" && env.lookup(e.Args[0].Name) == nil {
			if _, ok := w.Pkgs[e.Args[0].Name]; ok {
				if sf := w.findSpec(e.Args[0].Name, e.Name); sf != nil && len(sf.Params) == 0 {
					rs, gt := w.resolveSpecType(sf.Pkg, sf.Ret)
					return tv(mk(specFuncSMTName(sf), rs), gt)
				}
			}
		}
		base := w.trSpec(e.Args[0], env)
		return w.specField(base, e.Name, e, env)
	case "index":
		base := w.trSpec(e.Args[0], env)
		idx := w.trSpec(e.Args[1], env)
		if base.ArrField != nil {
			arr := base.ArrField.Type().Underlying().(*types.Array)
			return tv(elemRefTerm(base.T, base.ArrOwner, base.ArrField, idx.T), arr.Elem())
		}
		if base.T.S.IsSlice {
			var et types.Type
			if base.GoT != nil {
				if sl, ok := base.GoT.Underlying().(*types.Slice); ok {
					et = sl.Elem()
				}
			}
			return tv(tSelect(tField(base.T, "arr"), mk("+", SInt, tField(base.T, "off"), idx.T)), et)
		}
		if base.T.S.Kind == KArray {
			var et types.Type
			if base.GoT != nil {
				if a, ok := base.GoT.Underlying().(*types.Array); ok {
					et = a.Elem()
				}
			}
			return tv(tSelect(base.T, idx.T), et)
		}
		if base.T.S.Kind == KUnint && base.T.S.Name == "Str" {
			return tv(mk("strAt", SInt, base.T, idx.T), types.Typ[types.Uint8]) // the byte at a position of a string (as in Go)
		}
		panic("spec: index on non-array " + e.String())
	case "quant":
		extra := map[string]*Val{}
		var bvs []*Term
		for _, v := range e.Vars {
			s, gt := w.resolveSpecType(env.pkg, v.Type)
			bvCounter++
			c := cnst(fmt.Sprintf("%s$%d", v.Name, bvCounter), s)
			bvs = append(bvs, c)
			extra[v.Name] = tv(c, gt)
		}
		qenv := env.with(extra)
		qenv.bound = map[string]*Val{}
		for k, v := range env.bound {
			qenv.bound[k] = v
		}
		for k, v := range extra {
			qenv.bound[k] = v
		}
		body := w.trSpec(e.Args[0], qenv)
		return tv(&Term{Op: e.Name, Args: []*Term{body.T}, S: SBool, BVars: bvs}, nil)
	case "call":
		return w.trSpecCall(e, env)
	}
	panic("spec: unsupported expression kind " + e.Kind)
}

func (w *World) specField(base *Val, name string, e *SExpr, env *SpecEnv) *Val {
	if base.T.S.Kind == KDT {
		if i, fs := base.T.S.field(name); i >= 0 {
			_ = fs
			var ft types.Type
			if base.GoT != nil {
				if st, ok := base.GoT.Underlying().(*types.Struct); ok {
					for j := 0; j < st.NumFields(); j++ {
						if st.Field(j).Name() == name {
							ft = st.Field(j).Type()
						}
					}
				}
			}
			return tv(tField(base.T, name), ft)
		}
	}
	if base.GoT != nil {
		var named *types.Named
		var lookupT types.Type
		if pt, ok := base.GoT.Underlying().(*types.Pointer); ok {
			named = namedOf(pt.Elem())
			lookupT = pt
		} else if w.isRefStruct(base.GoT) {
			named = namedOf(base.GoT)
			lookupT = types.NewPointer(base.GoT)
		}
		if named != nil {
			obj, path, _ := types.LookupFieldOrMethod(lookupT, true, named.Obj().Pkg(), name)
			if fv, ok := obj.(*types.Var); ok && fv.IsField() {
				cur := base.T
				curNamed := named
				for k, idx := range path {
					stt := curNamed.Underlying().(*types.Struct)
					f := stt.Field(idx)
					if w.isRefStruct(f.Type()) {
						cur = subRefTerm(cur, curNamed, f)
						curNamed = namedOf(f.Type())
						if k == len(path)-1 {
							return tv(cur, f.Type())
						}
						continue
					}
					if k == len(path)-1 {
						if _, isArr := w.isArrayOfRefStruct(f.Type()); isArr {
							return &Val{T: cur, GoT: f.Type(), ArrOwner: curNamed, ArrField: f, Mag: -1}
						}
						h := w.heapField(curNamed, f)
						if env.heapOf != nil {
							h = env.heapOf(h)
						}
						return tv(tSelect(h, cur), f.Type())
					}
					panic("spec: unsupported field path " + e.String())
				}
			}
		}
	}
	if base.T.S.Kind == KUnint && base.GoT != nil {
		// field of an opaque value of a dependency's struct type: the same uninterpreted function of the value that the
		// executor uses for program reads (exec.selectPath)
		if stt, ok := types.Unalias(base.GoT).Underlying().(*types.Struct); ok {
			for i := 0; i < stt.NumFields(); i++ {
				if f := stt.Field(i); f.Name() == name {
					return tv(mk("fld_"+base.T.S.Name+"_"+f.Name(), w.sortOf(f.Type()), base.T), f.Type())
				}
			}
		}
	}
	panic(fmt.Sprintf("spec: no field %s on %s (sort %s)", name, e.Args[0].String(), base.T.S))
}

func (w *World) trSpecBin(e *SExpr, env *SpecEnv) *Val {
	switch e.Name {
	case "&&":
		return tv(tAnd(w.trSpec(e.Args[0], env).T, w.trSpec(e.Args[1], env).T), nil)
	case "||":
		return tv(tOr(w.trSpec(e.Args[0], env).T, w.trSpec(e.Args[1], env).T), nil)
	case "==>":
		return tv(tImp(w.trSpec(e.Args[0], env).T, w.trSpec(e.Args[1], env).T), nil)
	case "<==>":
		return tv(tEq(w.trSpec(e.Args[0], env).T, w.trSpec(e.Args[1], env).T), nil)
	}
	a := w.trSpec(e.Args[0], env)
	b := w.trSpec(e.Args[1], env)
	at, bt := unifyNum(a, b)
	switch e.Name {
	case "==":
		return tv(tEq(at, bt), nil)
	case "!=":
		return tv(tNot(tEq(at, bt)), nil)
	case "<", "<=", ">", ">=":
		return tv(mk(e.Name, SBool, at, bt), nil)
	case "+", "-", "*":
		return tv(mk(e.Name, at.S, at, bt), a.GoT)
	case "/":
		if at.S.Kind == KInt {
			return tv(mk("div", SInt, at, bt), a.GoT)
		}
		return tv(mk("/", SReal, at, bt), a.GoT)
	case "%":
		return tv(mk("mod", SInt, at, bt), a.GoT)
	}
	panic("spec: operator " + e.Name)
}

func (w *World) trSpecCall(e *SExpr, env *SpecEnv) *Val {
	callee := e.Args[0]
	args := e.Args[1:]
	name := ""
	var recvArg *SExpr
	pkg := env.pkg
	switch callee.Kind {
	case "ident":
		name = callee.Name
	case "field":
		name = callee.Name
		if callee.Args[0].Kind == "ident" && env.lookup(callee.Args[0].Name) == nil {
			if _, ok := w.Pkgs[callee.Args[0].Name]; ok {
				pkg = callee.Args[0].Name
				break
			}
		}
		recvArg = callee.Args[0]
	default:
		panic("spec: bad callee " + callee.String())
	}
	if recvArg != nil {
		args = append([]*SExpr{recvArg}, args...)
	}
	// builtins
	switch name {
	case "old":
		if env.old == nil {
			return w.trSpec(args[0], env)
		}
		// quantifier-bound variables and the `$`-names of the current point ($i, $idx, $j, ret-lets) keep their
		// meaning inside old(..): only the program state is the entry state.
		carry := map[string]*Val{}
		for k, v := range env.names {
			if strings.HasPrefix(k, "$") && k != "$allocNow" {
				carry[k] = v
			}
		}
		for k, v := range env.bound {
			carry[k] = v
		}
		if _, nestedProto := env.names["oseen"]; nestedProto && env.old.st != nil {
			// outer protocol ghosts of the enclosing function at its entry
			if v, ok := env.old.st.ghost["seen"]; ok {
				carry["oseen"] = v
			}
			if v, ok := env.old.st.ghost["stopped"]; ok {
				carry["ostopped"] = v
			}
		}
		if len(carry) > 0 {
			return w.trSpec(args[0], env.old.with(carry))
		}
		return w.trSpec(args[0], env.old)
	case "zero":
		// zero(T): the zero value of a type (e.g. zero(gjson.Result))
		tn := ""
		switch a := args[0]; a.Kind {
		case "ident":
			tn = a.Name
		case "field":
			if a.Args[0].Kind == "ident" {
				tn = a.Args[0].Name + "." + a.Name
			}
		}
		if tn == "" {
			panic("spec: zero(T) needs a type name")
		}
		zs, zt := w.resolveSpecType(env.pkg, tn)
		return tv((&Exec{w: w}).zeroOfSort(zs), zt)
	case "ite":
		c := w.trSpec(args[0], env)
		a := w.trSpec(args[1], env)
		b := w.trSpec(args[2], env)
		at, bt := unifyNum(a, b)
		return tv(tIte(c.T, at, bt), a.GoT)
	case "len":
		x := w.trSpec(args[0], env)
		if x.T.S.IsSlice {
			return tv(tField(x.T, "len"), types.Typ[types.Int])
		}
		if x.T.S.Kind == KUnint && x.T.S.Name == "Str" {
			return tv(mk("strlen", SInt, x.T), types.Typ[types.Int])
		}
		panic("spec: len of non-slice")
	case "min", "max":
		a := w.trSpec(args[0], env)
		b := w.trSpec(args[1], env)
		at, bt := unifyNum(a, b)
		op := "<="
		if name == "max" {
			op = ">="
		}
		return tv(tIte(mk(op, SBool, at, bt), at, bt), a.GoT)
	case "abs":
		a := w.trSpec(args[0], env)
		zero := intLit(0)
		if a.T.S.Kind == KReal {
			zero = realLit("0")
		}
		return tv(tIte(mk(">=", SBool, a.T, zero), a.T, mk("-", a.T.S, a.T)), a.GoT)
	case "isNaN": // math.IsNaN as the program sees it (uninterpreted class predicate of a float)
		a := w.trSpec(args[0], env)
		return tv(mk("isnan", SBool, toReal(a.T)), nil)
	case "isInf": // math.IsInf(x, sign)
		a := w.trSpec(args[0], env)
		sg := w.trSpec(args[1], env)
		return tv(mk("isinf", SBool, toReal(a.T), sg.T), nil)
	case "isInt":
		a := w.trSpec(args[0], env)
		return tv(mk("is_int", SBool, toReal(a.T)), nil)
	case "real":
		a := w.trSpec(args[0], env)
		return tv(toReal(a.T), types.Typ[types.Float64])
	case "store":
		a := w.trSpec(args[0], env)
		i := w.trSpec(args[1], env)
		v := w.trSpec(args[2], env)
		return tv(tStore(a.T, i.T, coerceTo(v, a.T.S.Elem)), a.GoT)
	case "slice":
		// slice(s, lo, hi) = s[lo:hi]
		a := w.trSpec(args[0], env)
		lo := w.trSpec(args[1], env)
		hi := w.trSpec(args[2], env)
		return tv(tMkDT(a.T.S, tField(a.T, "arr"), mk("+", SInt, tField(a.T, "off"), lo.T), mk("-", SInt, hi.T, lo.T)), a.GoT)
	case "unboxBytes":
		a := w.trSpec(args[0], env)
		bs := w.Reg.slice(SInt)
		return tv(mk("unbox_"+mangle(bs.String()), bs, a.T), types.NewSlice(types.Typ[types.Uint8]))
	case "isBytes":
		a := w.trSpec(args[0], env)
		return tv(tAnd(tNot(tEq(a.T, intLit(0))), tEq(dynType(a.T), w.typeTag(types.NewSlice(types.Typ[types.Uint8])))), nil)
	case "dyn":
		a := w.trSpec(args[0], env)
		return tv(dynType(a.T), nil)
	case "typeid":
		// typeid(T): dynamic type tag of Go type T (T written as identifier or *identifier)
		tn := strings.TrimPrefix(args[0].String(), "*")
		ptr := strings.HasPrefix(args[0].String(), "*")
		_, gt := w.resolveSpecType(pkg, tn)
		if ptr {
			gt = types.NewPointer(gt)
		}
		return tv(w.typeTag(gt), nil)
	case "as":
		// as(x, *T): view an interface / pointer value as a pointer to the module type T (no check: guard with dyn(x) == typeid(*T))
		a := w.trSpec(args[0], env)
		tn := args[1].String()
		ptr := strings.HasPrefix(tn, "*")
		tn = strings.TrimPrefix(tn, "*")
		_, gt := w.resolveSpecType(pkg, tn)
		if ptr {
			gt = types.NewPointer(gt)
		}
		return tv(a.T, gt)
	case "boxRect":
		a := w.trSpec(args[0], env)
		s, gt := w.resolveSpecType("geometry", "Rect")
		_, it := w.resolveSpecType("geometry", "Series")
		w.boxTags[mangle(s.String())] = w.typeTag(gt)
		return tv(mk("box_"+mangle(s.String()), SRef, a.T), it)
	case "unboxRect":
		a := w.trSpec(args[0], env)
		s, gt := w.resolveSpecType("geometry", "Rect")
		return tv(mk("unbox_"+mangle(s.String()), s, a.T), gt)
	case "f64at":
		// f64at(d, o): the float64 whose little-endian bits are the 8 bytes of d at offset o (A-BINARY)
		a := w.trSpec(args[0], env)
		o := w.trSpec(args[1], env)
		le := mk("le64", SInt, tField(a.T, "arr"), mk("+", SInt, tField(a.T, "off"), o.T))
		return tv(mk("f64frombits", SReal, le), types.Typ[types.Float64])
	case "fadd", "fsub", "fmul", "fdiv":
		a := w.trSpec(args[0], env)
		b := w.trSpec(args[1], env)
		return tv(mk(name, SReal, toReal(a.T), toReal(b.T)), types.Typ[types.Float64])
	}
	// composite constructors: Point{..} not supported; use mkPoint(x,y) etc via named DT
	if strings.HasPrefix(name, "mk") {
		s, gt := w.tryType(pkg, strings.TrimPrefix(name, "mk"))
		if s == nil || s.Kind != KDT {
			// value-struct constructors are found in any package of the module (mkRect, mkPoint from package geojson)
			for _, p := range []string{"geometry", "geo", "geojson"} {
				if s2, gt2 := w.tryType(p, strings.TrimPrefix(name, "mk")); s2 != nil && s2.Kind == KDT {
					s, gt = s2, gt2
					break
				}
			}
		}
		if s != nil && s.Kind == KDT {
			ts := make([]*Term, len(args))
			for i, a := range args {
				ts[i] = coerceTo(w.trSpec(a, env), s.Fields[i].S)
			}
			return tv(tMkDT(s, ts...), gt)
		}
	}
	if sf := w.findSpec(pkg, name); sf != nil {
		if len(args) != len(sf.Params) {
			panic(fmt.Sprintf("spec: %s expects %d args, got %d in %s", name, len(sf.Params), len(args), e.String()))
		}
		ts := make([]*Term, len(args))
		for i, a := range args {
			ps, _ := w.resolveSpecType(sf.Pkg, sf.Params[i].Type)
			v := w.trSpec(a, env)
			ts[i] = coerceTo(v, ps)
			if !ts[i].S.Eq(ps) {
				panic(fmt.Sprintf("spec: argument %d of %s has sort %s, want %s (in %s)", i, name, ts[i].S, ps, e.String()))
			}
		}
		for _, g := range w.specHeapParams(sf) {
			if env.heapOf != nil {
				ts = append(ts, env.heapOf(g))
			} else {
				ts = append(ts, g)
			}
		}
		rs, gt := w.resolveSpecType(sf.Pkg, sf.Ret)
		return tv(mk(specFuncSMTName(sf), rs, ts...), gt)
	}
	// method of a dependency's type on an opaque value (r.IsArray(), r.Exists()): the same deterministic uninterpreted
	// function of receiver and arguments that the executor uses for such calls (callExtern)
	if len(args) >= 1 {
		recv := w.trSpec(args[0], env)
		if recv.GoT != nil && isExternalNamed(recv.GoT) {
			ms := types.NewMethodSet(recv.GoT)
			for i := 0; i < ms.Len(); i++ {
				m, ok := ms.At(i).Obj().(*types.Func)
				if !ok || m.Name() != name {
					continue
				}
				sig := m.Type().(*types.Signature)
				if sig.Results().Len() != 1 {
					break
				}
				ts := []*Term{recv.T}
				for _, a := range args[1:] {
					ts = append(ts, w.trSpec(a, env).T)
				}
				rt := sig.Results().At(0).Type()
				return tv(mk("ext_"+sanitize(externKey(m)), w.sortOf(rt), ts...), rt)
			}
		}
	}
	panic(fmt.Sprintf("spec: unknown function %q in %s", name, e.String()))
}

func (w *World) tryType(pkg, name string) (s *Sort, gt types.Type) {
	defer func() {
		if r := recover(); r != nil {
			s, gt = nil, nil
		}
	}()
	return w.resolveSpecType(pkg, name)
}

// ---------------------------------------------------------------- spec function definitions

type SpecDef struct {
	SF     *SpecFunc
	Params []*Term
	Body   *Term
	Ret    *Sort
	Deps   []string
}

var specBroken = map[*SpecFunc]string{}
var specHeapCache map[*SpecFunc][]*Term
var specHeapCur map[*SpecFunc]map[string]*Term

// specHeapParams: the heap fields a spec function reads (transitively), as global constants in name order.
// Computed once for all spec functions as a least fixpoint (mutually recursive definitions included).
func (w *World) specHeapParams(sf *SpecFunc) []*Term {
	if specHeapCache != nil {
		return specHeapCache[sf]
	}
	if specHeapCur != nil {
		// inside the fixpoint computation: current approximation
		var hp []*Term
		for _, k := range sortedKeys(specHeapCur[sf]) {
			hp = append(hp, specHeapCur[sf][k])
		}
		return hp
	}
	specHeapCur = map[*SpecFunc]map[string]*Term{}
	var all []*SpecFunc
	for _, k := range sortedKeys(w.CS.Specs) {
		f := w.CS.Specs[k]
		specHeapCur[f] = map[string]*Term{}
		if f.Body != nil {
			all = append(all, f)
		}
	}
	saved := bvCounter
	for changed := true; changed; {
		changed = false
		for _, f := range all {
			names := map[string]*Val{}
			for _, p := range f.Params {
				s, gt := w.resolveSpecType(f.Pkg, p.Type)
				names[p.Name] = tv(cnst(p.Name+"$", s), gt)
			}
			cur := specHeapCur[f]
			n0 := len(cur)
			env := &SpecEnv{names: names, pkg: f.Pkg, w: w, heapOf: func(g *Term) *Term {
				name := strings.TrimSuffix(g.Op, "$")
				cur[name] = cnst(name, g.S)
				return cnst(name+"$", g.S)
			}}
			func() {
				defer func() {
					if r := recover(); r != nil {
						// a broken spec function must not poison the others: it is reported when it is used
						specBroken[f] = fmt.Sprint(r)
					}
				}()
				w.trSpec(f.Body, env)
			}()
			if len(cur) != n0 {
				changed = true
			}
		}
	}
	bvCounter = saved
	cache := map[*SpecFunc][]*Term{}
	for f, m := range specHeapCur {
		var hp []*Term
		for _, k := range sortedKeys(m) {
			hp = append(hp, m[k])
		}
		cache[f] = hp
	}
	specHeapCache = cache
	specHeapCur = nil
	return specHeapCache[sf]
}

func (w *World) specDef(sf *SpecFunc) *SpecDef {
	saved := bvCounter
	bvCounter = 0
	defer func() { bvCounter = saved }()
	d := &SpecDef{SF: sf}
	rs, _ := w.resolveSpecType(sf.Pkg, sf.Ret)
	d.Ret = rs
	names := map[string]*Val{}
	for _, p := range sf.Params {
		s, gt := w.resolveSpecType(sf.Pkg, p.Type)
		c := cnst(p.Name+"$", s)
		d.Params = append(d.Params, c)
		names[p.Name] = tv(c, gt)
	}
	hp := w.specHeapParams(sf)
	for _, g := range hp {
		d.Params = append(d.Params, cnst(g.Op+"$", g.S))
	}
	if sf.Body != nil {
		env := &SpecEnv{names: names, pkg: sf.Pkg, w: w, heapOf: func(g *Term) *Term { return cnst(g.Op+"$", g.S) }}
		b := w.trSpec(sf.Body, env)
		d.Body = coerceTo(b, rs)
		if !d.Body.S.Eq(rs) {
			panic(fmt.Sprintf("spec func %s: body sort %s, declared %s", sf.Name, d.Body.S, rs))
		}
	}
	return d
}
