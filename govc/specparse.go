package main

import (
	"fmt"
	"strings"
	"unicode"
)

// ---------------------------------------------------------------- spec AST

type SExpr struct {
	Kind string // ident, num, bin, un, call, field, index, quant, old, slice
	Name string // ident name / operator / field name / quantifier
	Args []*SExpr
	// quant
	Vars []SParam
	Pos  string
}

type SParam struct {
	Name string
	Type string
}

func (e *SExpr) String() string {
	switch e.Kind {
	case "ident", "num":
		return e.Name
	case "str":
		return "\"" + e.Name + "\""
	case "bin":
		return "(" + e.Args[0].String() + " " + e.Name + " " + e.Args[1].String() + ")"
	case "un":
		return e.Name + e.Args[0].String()
	case "call":
		var as []string
		for _, a := range e.Args[1:] {
			as = append(as, a.String())
		}
		return e.Args[0].String() + "(" + strings.Join(as, ", ") + ")"
	case "field":
		return e.Args[0].String() + "." + e.Name
	case "index":
		return e.Args[0].String() + "[" + e.Args[1].String() + "]"
	case "quant":
		var vs []string
		for _, v := range e.Vars {
			vs = append(vs, v.Name+" "+v.Type)
		}
		return "(" + e.Name + " " + strings.Join(vs, ", ") + " :: " + e.Args[0].String() + ")"
	}
	return "?" + e.Kind
}

// ---------------------------------------------------------------- lexer

type tok struct {
	k    string // id, num, op, eof
	s    string
	line string
}

func lexSpec(src string, where string) ([]tok, error) {
	var out []tok
	i := 0
	rs := []rune(src)
	for i < len(rs) {
		c := rs[i]
		if unicode.IsSpace(c) {
			i++
			continue
		}
		if c == '/' && i+1 < len(rs) && rs[i+1] == '/' {
			// trailing comment inside an annotation line
			for i < len(rs) && rs[i] != '\n' {
				i++
			}
			continue
		}
		if c == '"' {
			// string literal (no escapes needed so far)
			j := i + 1
			for j < len(rs) && rs[j] != '"' {
				j++
			}
			if j >= len(rs) {
				return nil, fmt.Errorf("%s: unterminated string literal in spec", where)
			}
			out = append(out, tok{"str", string(rs[i+1 : j]), where})
			i = j + 1
			continue
		}
		if unicode.IsLetter(c) || c == '_' || c == '\\' || c == '$' {
			j := i + 1
			for j < len(rs) && (unicode.IsLetter(rs[j]) || unicode.IsDigit(rs[j]) || rs[j] == '_' || rs[j] == '$') {
				j++
			}
			out = append(out, tok{"id", string(rs[i:j]), where})
			i = j
			continue
		}
		if unicode.IsDigit(c) {
			j := i + 1
			for j < len(rs) && (unicode.IsDigit(rs[j]) || rs[j] == '.' || rs[j] == 'e' || rs[j] == 'x' || (rs[j] >= 'A' && rs[j] <= 'F') || (rs[j] >= 'a' && rs[j] <= 'f')) {
				// stop '.' followed by non-digit (field access on number is impossible anyway)
				j++
			}
			out = append(out, tok{"num", string(rs[i:j]), where})
			i = j
			continue
		}
		three := ""
		if i+3 < len(rs) {
			three = string(rs[i : i+4])
		}
		if three == "<==>" {
			out = append(out, tok{"op", "<==>", where})
			i += 4
			continue
		}
		if i+2 < len(rs) && string(rs[i:i+3]) == "==>" {
			out = append(out, tok{"op", "==>", where})
			i += 3
			continue
		}
		if i+1 < len(rs) {
			two := string(rs[i : i+2])
			switch two {
			case "==", "!=", "<=", ">=", "&&", "||", "::", ":=":
				out = append(out, tok{"op", two, where})
				i += 2
				continue
			}
		}
		if strings.ContainsRune("+-*/%<>!()[]{}.,:;=?#@", c) {
			out = append(out, tok{"op", string(c), where})
			i++
			continue
		}
		return nil, fmt.Errorf("%s: bad character %q in spec", where, c)
	}
	return out, nil
}

// ---------------------------------------------------------------- parser

type sparser struct {
	toks []tok
	p    int
}

func (p *sparser) peek() tok {
	if p.p < len(p.toks) {
		return p.toks[p.p]
	}
	return tok{k: "eof"}
}
func (p *sparser) peekAt(n int) tok {
	if p.p+n < len(p.toks) {
		return p.toks[p.p+n]
	}
	return tok{k: "eof"}
}
func (p *sparser) next() tok { t := p.peek(); p.p++; return t }
func (p *sparser) isOp(s string) bool {
	t := p.peek()
	return t.k == "op" && t.s == s
}
func (p *sparser) isId(s string) bool {
	t := p.peek()
	return t.k == "id" && t.s == s
}
func (p *sparser) expectOp(s string) {
	t := p.next()
	if t.k != "op" || t.s != s {
		panic(fmt.Sprintf("%s: expected %q, got %q", t.line, s, t.s))
	}
}
func (p *sparser) expectId() string {
	t := p.next()
	if t.k != "id" {
		panic(fmt.Sprintf("%s: expected identifier, got %q", t.line, t.s))
	}
	return t.s
}

// parseType reads a type: [*] [[]] ident [. ident]
func (p *sparser) parseType() string {
	s := ""
	for {
		if p.isOp("*") {
			p.next()
			s += "*"
		} else if p.isOp("[") {
			p.next()
			if p.peek().k == "num" {
				s += "[" + p.next().s + "]"
				p.expectOp("]")
			} else {
				p.expectOp("]")
				s += "[]"
			}
		} else {
			break
		}
	}
	s += p.expectId()
	if p.isOp(".") {
		p.next()
		s += "." + p.expectId()
	}
	return s
}

func (p *sparser) parseExpr() *SExpr { return p.parseIff() }

func (p *sparser) parseIff() *SExpr {
	l := p.parseImp()
	for p.isOp("<==>") {
		p.next()
		r := p.parseImp()
		l = &SExpr{Kind: "bin", Name: "<==>", Args: []*SExpr{l, r}}
	}
	return l
}

func (p *sparser) parseImp() *SExpr {
	l := p.parseOr()
	if p.isOp("==>") {
		p.next()
		r := p.parseImp()
		return &SExpr{Kind: "bin", Name: "==>", Args: []*SExpr{l, r}}
	}
	return l
}

func (p *sparser) parseOr() *SExpr {
	l := p.parseAnd()
	for p.isOp("||") {
		p.next()
		r := p.parseAnd()
		l = &SExpr{Kind: "bin", Name: "||", Args: []*SExpr{l, r}}
	}
	return l
}

func (p *sparser) parseAnd() *SExpr {
	l := p.parseCmp()
	for p.isOp("&&") {
		p.next()
		r := p.parseCmp()
		l = &SExpr{Kind: "bin", Name: "&&", Args: []*SExpr{l, r}}
	}
	return l
}

func (p *sparser) parseCmp() *SExpr {
	l := p.parseAdd()
	t := p.peek()
	if t.k == "op" {
		switch t.s {
		case "==", "!=", "<", "<=", ">", ">=":
			p.next()
			r := p.parseAdd()
			return &SExpr{Kind: "bin", Name: t.s, Args: []*SExpr{l, r}}
		}
	}
	return l
}

func (p *sparser) parseAdd() *SExpr {
	l := p.parseMul()
	for p.isOp("+") || p.isOp("-") {
		op := p.next().s
		r := p.parseMul()
		l = &SExpr{Kind: "bin", Name: op, Args: []*SExpr{l, r}}
	}
	return l
}

func (p *sparser) parseMul() *SExpr {
	l := p.parseUnary()
	for p.isOp("*") || p.isOp("/") || p.isOp("%") {
		op := p.next().s
		r := p.parseUnary()
		l = &SExpr{Kind: "bin", Name: op, Args: []*SExpr{l, r}}
	}
	return l
}

func (p *sparser) parseUnary() *SExpr {
	if p.isOp("!") {
		p.next()
		return &SExpr{Kind: "un", Name: "!", Args: []*SExpr{p.parseUnary()}}
	}
	if p.isOp("-") {
		p.next()
		return &SExpr{Kind: "un", Name: "-", Args: []*SExpr{p.parseUnary()}}
	}
	if p.isOp("*") {
		p.next()
		return &SExpr{Kind: "un", Name: "*", Args: []*SExpr{p.parseUnary()}}
	}
	return p.parsePostfix()
}

func (p *sparser) parsePostfix() *SExpr {
	e := p.parsePrimary()
	for {
		if p.isOp(".") {
			p.next()
			name := p.expectId()
			e = &SExpr{Kind: "field", Name: name, Args: []*SExpr{e}}
		} else if p.isOp("[") {
			p.next()
			idx := p.parseExpr()
			p.expectOp("]")
			e = &SExpr{Kind: "index", Args: []*SExpr{e, idx}}
		} else if p.isOp("(") {
			p.next()
			args := []*SExpr{e}
			for !p.isOp(")") {
				args = append(args, p.parseExpr())
				if p.isOp(",") {
					p.next()
				}
			}
			p.expectOp(")")
			e = &SExpr{Kind: "call", Args: args}
		} else {
			return e
		}
	}
}

func (p *sparser) parsePrimary() *SExpr {
	t := p.next()
	switch t.k {
	case "num":
		return &SExpr{Kind: "num", Name: t.s}
	case "str":
		return &SExpr{Kind: "str", Name: t.s}
	case "id":
		if t.s == "forall" || t.s == "exists" {
			q := &SExpr{Kind: "quant", Name: t.s}
			for {
				name := p.expectId()
				typ := p.parseType()
				q.Vars = append(q.Vars, SParam{name, typ})
				if p.isOp(",") {
					p.next()
					continue
				}
				break
			}
			p.expectOp("::")
			q.Args = []*SExpr{p.parseExpr()}
			return q
		}
		return &SExpr{Kind: "ident", Name: t.s, Pos: t.line}
	case "op":
		if t.s == "(" {
			e := p.parseExpr()
			p.expectOp(")")
			return e
		}
	}
	panic(fmt.Sprintf("%s: unexpected token %q in spec expression", t.line, t.s))
}
