package main

import (
	"fmt"
	"go/ast"
	"go/token"
	"go/types"
	"os"
	"path/filepath"
	"sort"
	"strings"

	"golang.org/x/tools/go/packages"
)

const modPath = "github.com/tidwall/geojson"

type FuncInfo struct {
	Key  string // "geometry.Segment.Raycast"
	Pkg  *packages.Package
	Decl *ast.FuncDecl // nil for interface methods
	Obj  *types.Func
	Sig  *types.Signature
	Recv *types.Var
	File string
}

type World struct {
	Pkgs    map[string]*packages.Package // by short name
	Fset    *token.FileSet
	Reg     *SortReg
	CS      *Contracts
	Funcs   map[string]*FuncInfo
	ByObj   map[*types.Func]*FuncInfo
	fresh   int
	RepoDir string
	// heap field sorts: "geometry.baseSeries.points" -> array term (global, immutable-heap model)
	heap map[string]*Term
	// dynamic type tags
	typeTags      map[string]int
	boxTags       map[string]*Term // mangled sort name of a boxed value struct -> its dynamic type tag
	ContractFiles []string
	TrustedScan   []string
}

func shortPkg(path string) string {
	if path == modPath {
		return "geojson"
	}
	return strings.TrimPrefix(path, modPath+"/")
}

func loadWorld(repo string) (*World, error) {
	cfg := &packages.Config{Mode: packages.LoadAllSyntax, Dir: repo, BuildFlags: []string{"-tags=verif"}, Env: append(os.Environ(), "GOFLAGS=-mod=mod", "GOPROXY=off", "GOSUMDB=off", "GOTOOLCHAIN=local")}
	pkgs, err := packages.Load(cfg, "./...")
	if err != nil {
		return nil, err
	}
	w := &World{Pkgs: map[string]*packages.Package{}, Reg: newSortReg(), Funcs: map[string]*FuncInfo{}, ByObj: map[*types.Func]*FuncInfo{}, heap: map[string]*Term{}, typeTags: map[string]int{}, RepoDir: repo, boxTags: map[string]*Term{}}
	w.CS = &Contracts{Specs: map[string]*SpecFunc{}, Lemmas: map[string]*Lemma{}, Funcs: map[string]*FuncContract{}}
	for _, p := range pkgs {
		if len(p.Errors) > 0 {
			return nil, fmt.Errorf("package %s: %v", p.PkgPath, p.Errors)
		}
		w.Fset = p.Fset
		sp := shortPkg(p.PkgPath)
		w.Pkgs[sp] = p
		for i, f := range p.Syntax {
			fname := p.CompiledGoFiles[i]
			for _, d := range f.Decls {
				fd, ok := d.(*ast.FuncDecl)
				if !ok {
					continue
				}
				obj := p.TypesInfo.Defs[fd.Name].(*types.Func)
				sig := obj.Type().(*types.Signature)
				key := sp + "." + fd.Name.Name
				if sig.Recv() != nil {
					key = sp + "." + recvTypeName(sig.Recv().Type()) + "." + fd.Name.Name
				}
				fi := &FuncInfo{Key: key, Pkg: p, Decl: fd, Obj: obj, Sig: sig, Recv: sig.Recv(), File: fname}
				w.Funcs[key] = fi
				w.ByObj[obj] = fi
			}
			if strings.HasSuffix(fname, "_verif.go") {
				lines := collectAnnotations(f, fname)
				w.ContractFiles = append(w.ContractFiles, fname)
				w.CS.parseFile(sp, lines, filepath.Base(fname))
			}
		}
		// interface methods
		sc := p.Types.Scope()
		for _, n := range sc.Names() {
			tn, ok := sc.Lookup(n).(*types.TypeName)
			if !ok {
				continue
			}
			it, ok := tn.Type().Underlying().(*types.Interface)
			if !ok || tn.IsAlias() {
				continue
			}
			for i := 0; i < it.NumMethods(); i++ {
				m := it.Method(i)
				key := sp + "." + n + "." + m.Name()
				fi := &FuncInfo{Key: key, Pkg: p, Obj: m, Sig: m.Type().(*types.Signature)}
				w.Funcs[key] = fi
				w.ByObj[m] = fi
			}
		}
	}
	return w, nil
}

func recvTypeName(t types.Type) string {
	if p, ok := t.(*types.Pointer); ok {
		t = p.Elem()
	}
	if n, ok := t.(*types.Named); ok {
		return n.Obj().Name()
	}
	return t.String()
}

func (w *World) freshName(base string) string {
	w.fresh++
	return fmt.Sprintf("%s!%d", base, w.fresh)
}

// SRef is the sort of pointers, interfaces, funcs: an integer address, 0 = nil.
var SRef = SInt

func (w *World) sortOf(t types.Type) *Sort {
	switch u := t.(type) {
	case *types.Named:
		if u.Obj().Pkg() != nil && !strings.HasPrefix(u.Obj().Pkg().Path(), modPath) {
			if _, isIface := u.Underlying().(*types.Interface); isIface {
				return SRef
			}
			if _, isStruct := u.Underlying().(*types.Struct); isStruct {
				// a struct type of a dependency: an opaque value (A-GJSON etc.)
				return w.Reg.unint("X_" + mangle(u.Obj().Pkg().Name()) + "_" + u.Obj().Name())
			}
		}
		if st, ok := u.Underlying().(*types.Struct); ok {
			if !w.isValueStruct(u) {
				return SRef
			}
			name := shortPkgOf(u) + "_" + u.Obj().Name()
			if s, ok := w.Reg.byName[name]; ok {
				return s
			}
			var fs []Field
			for i := 0; i < st.NumFields(); i++ {
				fs = append(fs, Field{st.Field(i).Name(), w.sortOf(st.Field(i).Type())})
			}
			return w.Reg.dt(name, fs)
		}
		return w.sortOf(u.Underlying())
	case *types.Alias:
		return w.sortOf(types.Unalias(u))
	case *types.Basic:
		switch {
		case u.Info()&types.IsBoolean != 0:
			return SBool
		case u.Info()&types.IsInteger != 0:
			return SInt
		case u.Info()&types.IsFloat != 0:
			return SReal
		case u.Info()&types.IsString != 0:
			return w.Reg.unint("Str")
		case u.Kind() == types.UntypedNil:
			return SRef
		}
	case *types.Pointer, *types.Interface, *types.Signature, *types.Map, *types.Chan:
		return SRef
	case *types.Slice:
		return w.Reg.slice(w.sortOf(u.Elem()))
	case *types.Array:
		return arraySort(SInt, w.sortOf(u.Elem()))
	case *types.Struct:
		name := "anon_struct"
		var fs []Field
		for i := 0; i < u.NumFields(); i++ {
			fs = append(fs, Field{u.Field(i).Name(), w.sortOf(u.Field(i).Type())})
			name += "_" + u.Field(i).Name()
		}
		return w.Reg.dt(name, fs)
	case *types.Tuple:
		if u.Len() == 1 {
			return w.sortOf(u.At(0).Type())
		}
	}
	panic(unsupported("type " + t.String()))
}

func shortPkgOf(n *types.Named) string {
	if n.Obj().Pkg() == nil {
		return "builtin"
	}
	return mangle(shortPkg(n.Obj().Pkg().Path()))
}

type unsupportedErr struct{ msg string }

func unsupported(msg string) unsupportedErr { return unsupportedErr{msg} }
func (u unsupportedErr) Error() string      { return "unsupported: " + u.msg }

// resolveSpecType maps a type name used in specs to (sort, go type).
func (w *World) resolveSpecType(pkg, name string) (*Sort, types.Type) {
	switch name {
	case "int":
		return SInt, types.Typ[types.Int]
	case "real":
		return SReal, types.Typ[types.Float64]
	case "float64":
		return SReal, types.Typ[types.Float64]
	case "bool":
		return SBool, types.Typ[types.Bool]
	case "byte", "uint8":
		return SInt, types.Typ[types.Uint8]
	case "uint32":
		return SInt, types.Typ[types.Uint32]
	case "any":
		return SRef, types.NewInterfaceType(nil, nil)
	case "error":
		return SRef, types.Universe.Lookup("error").Type()
	case "string":
		return w.Reg.unint("Str"), types.Typ[types.String]
	case "set":
		return arraySort(SInt, SBool), nil
	case "bytes":
		return arraySort(SInt, SInt), nil
	case "ref":
		return SRef, nil
	}
	if strings.HasPrefix(name, "*") {
		_, gt := w.resolveSpecType(pkg, name[1:])
		if gt == nil {
			panic("spec type: " + name)
		}
		return SRef, types.NewPointer(gt)
	}
	if strings.HasPrefix(name, "[]") {
		s, gt := w.resolveSpecType(pkg, name[2:])
		var st types.Type
		if gt != nil {
			st = types.NewSlice(gt)
		}
		return w.Reg.slice(s), st
	}
	p := pkg
	n := name
	if i := strings.Index(name, "."); i >= 0 {
		p, n = name[:i], name[i+1:]
	}
	pk := w.Pkgs[p]
	if pk == nil {
		// a type of a dependency, named by its package name (gjson.Result)
		for _, mp := range w.Pkgs {
			for _, imp := range mp.Imports {
				if imp.Name == p && imp.Types != nil {
					if obj := imp.Types.Scope().Lookup(n); obj != nil {
						return w.sortOf(obj.Type()), obj.Type()
					}
				}
			}
		}
		panic("spec type: unknown package in " + name)
	}
	obj := pk.Types.Scope().Lookup(n)
	if obj == nil {
		panic("spec type: unknown type " + name + " in " + p)
	}
	return w.sortOf(obj.Type()), obj.Type()
}

// heapField returns the global array for field f of struct type named key.
func (w *World) heapField(owner *types.Named, fld *types.Var) *Term {
	key := "H_" + shortPkgOf(owner) + "_" + owner.Obj().Name() + "_" + fld.Name()
	if t, ok := w.heap[key]; ok {
		return t
	}
	t := cnst(key, arraySort(SRef, w.sortOf(fld.Type())))
	w.heap[key] = t
	return t
}

// canonType: a string that identifies a Go type independently of alias spelling (byte/uint8, rune/int32).
func canonType(t types.Type) string {
	t = types.Unalias(t)
	switch u := t.(type) {
	case *types.Basic:
		if u.Kind() < types.UntypedBool && u.Kind() != types.Invalid {
			return types.Typ[u.Kind()].Name()
		}
		return u.Name()
	case *types.Pointer:
		return "*" + canonType(u.Elem())
	case *types.Slice:
		return "[]" + canonType(u.Elem())
	case *types.Array:
		return fmt.Sprintf("[%d]%s", u.Len(), canonType(u.Elem()))
	case *types.Named:
		if u.Obj().Pkg() != nil {
			return u.Obj().Pkg().Path() + "." + u.Obj().Name()
		}
		return u.Obj().Name()
	}
	return types.TypeString(t, nil)
}

func (w *World) typeTag(t types.Type) *Term {
	k := canonType(t)
	if _, ok := w.typeTags[k]; !ok {
		w.typeTags[k] = len(w.typeTags) + 1
	}
	return intLit(int64(w.typeTags[k]))
}

func (w *World) sortedHeap() []*Term {
	var ks []string
	for k := range w.heap {
		ks = append(ks, k)
	}
	sort.Strings(ks)
	var out []*Term
	for _, k := range ks {
		out = append(out, w.heap[k])
	}
	return out
}

var srcLines = map[string][]string{}

// sourceLine returns line n (1-based) of a source file of the working tree.
func (w *World) sourceLine(file string, n int) string {
	ls, ok := srcLines[file]
	if !ok {
		b, _ := os.ReadFile(file)
		ls = strings.Split(string(b), "\n")
		srcLines[file] = ls
	}
	if n < 1 || n > len(ls) {
		return ""
	}
	return ls[n-1]
}

// ---- static call-graph SCCs (for mutual-recursion measures)

var sccID map[*FuncInfo]int

func (w *World) sameSCC(a, b *FuncInfo) bool {
	if a == nil || b == nil || a.Decl == nil || b.Decl == nil {
		return false
	}
	if sccID == nil {
		w.computeSCC()
	}
	ia, oka := sccID[a]
	ib, okb := sccID[b]
	return oka && okb && ia == ib
}

func (w *World) computeSCC() {
	sccID = map[*FuncInfo]int{}
	var nodes []*FuncInfo
	for _, fi := range w.Funcs {
		if fi.Decl != nil && fi.Decl.Body != nil {
			nodes = append(nodes, fi)
		}
	}
	sort.Slice(nodes, func(i, j int) bool { return nodes[i].Key < nodes[j].Key })
	succ := map[*FuncInfo][]*FuncInfo{}
	for _, fi := range nodes {
		info := fi.Pkg.TypesInfo
		seen := map[*FuncInfo]bool{}
		ast.Inspect(fi.Decl.Body, func(n ast.Node) bool {
			ce, ok := n.(*ast.CallExpr)
			if !ok {
				return true
			}
			var id *ast.Ident
			switch f := ce.Fun.(type) {
			case *ast.Ident:
				id = f
			case *ast.SelectorExpr:
				id = f.Sel
			}
			if id == nil {
				return true
			}
			if fn, ok := info.Uses[id].(*types.Func); ok {
				if g := w.ByObj[fn]; g != nil && g.Decl != nil && !seen[g] {
					seen[g] = true
					succ[fi] = append(succ[fi], g)
				}
			}
			return true
		})
	}
	// Tarjan
	index := 0
	idx := map[*FuncInfo]int{}
	low := map[*FuncInfo]int{}
	on := map[*FuncInfo]bool{}
	var stack []*FuncInfo
	comp := 0
	var strong func(v *FuncInfo)
	strong = func(v *FuncInfo) {
		index++
		idx[v], low[v] = index, index
		stack = append(stack, v)
		on[v] = true
		for _, x := range succ[v] {
			if idx[x] == 0 {
				strong(x)
				if low[x] < low[v] {
					low[v] = low[x]
				}
			} else if on[x] && idx[x] < low[v] {
				low[v] = idx[x]
			}
		}
		if low[v] == idx[v] {
			comp++
			for {
				x := stack[len(stack)-1]
				stack = stack[:len(stack)-1]
				on[x] = false
				sccID[x] = comp
				if x == v {
					break
				}
			}
		}
	}
	for _, v := range nodes {
		if idx[v] == 0 {
			strong(v)
		}
	}
}

// implementers: the named types of the module (T or *T) whose method set implements the interface, in a stable order.
func (w *World) implementers(it *types.Interface) []types.Type {
	var names []string
	byName := map[string]types.Type{}
	for _, pk := range w.Pkgs {
		sc := pk.Types.Scope()
		for _, nm := range sc.Names() {
			tn, ok := sc.Lookup(nm).(*types.TypeName)
			if !ok || tn.IsAlias() {
				continue
			}
			named, ok := tn.Type().(*types.Named)
			if !ok {
				continue
			}
			if _, isIface := named.Underlying().(*types.Interface); isIface {
				continue
			}
			var t types.Type
			if types.Implements(named, it) {
				t = named
			} else if p := types.NewPointer(named); types.Implements(p, it) {
				t = p
			}
			if t != nil {
				k := pk.PkgPath + "." + nm
				names = append(names, k)
				byName[k] = t
			}
		}
	}
	sort.Strings(names)
	var out []types.Type
	for _, k := range names {
		out = append(out, byName[k])
	}
	return out
}
