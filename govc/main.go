package main

import (
	"fmt"
	"golang.org/x/tools/go/packages"
)

func main() {
	cfg := &packages.Config{Mode: packages.LoadAllSyntax, Dir: "/repo", BuildFlags: []string{"-tags=verif"}}
	pkgs, err := packages.Load(cfg, "./...")
	fmt.Println(len(pkgs), err)
	for _, p := range pkgs { fmt.Println(p.PkgPath, len(p.Syntax), p.Errors) }
}
