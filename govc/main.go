package main

import (
	"flag"
	"fmt"
	"os"
	"sort"
	"strings"
	"time"
)

func envOr(k, d string) string {
	if v := os.Getenv(k); v != "" {
		return v
	}
	return d
}

func main() {
	if len(os.Args) < 2 {
		fmt.Fprintln(os.Stderr, "usage: govc verify|check|replay|selftest ...")
		os.Exit(2)
	}
	switch os.Args[1] {
	case "verify":
		cmdVerify(os.Args[2:])
	case "check":
		cmdCheck(os.Args[2:])
	case "replay":
		cmdReplay(os.Args[2:])
	case "selftest":
		cmdSelftest(os.Args[2:])
	case "bounded":
		cmdBounded(os.Args[2:])
	case "list":
		cmdList(os.Args[2:])
	default:
		fmt.Fprintln(os.Stderr, "unknown command", os.Args[1])
		os.Exit(2)
	}
}

type FuncReport struct {
	Key     string
	Err     error
	Results []*OblResult
	Ex      *Exec
	Time    float64
	Notes   []string
}

// lemmaObligations builds proof obligations for a lemma.
func (w *World) lemmaObligations(lm *Lemma) (obls []*Obligation, err error) {
	defer func() {
		if r := recover(); r != nil {
			if s, ok := r.(string); ok {
				err = fmt.Errorf("lemma %s: %s", lm.Name, s)
				return
			}
			panic(r)
		}
	}()
	if lm.Axiom {
		return nil, nil
	}
	w.fresh = 0
	bvCounter = 100000
	ex := &Exec{w: w, arith: "exact", assumedCalls: map[string]bool{}}
	names := map[string]*Val{}
	for _, p := range lm.Params {
		s, gt := w.resolveSpecType(lm.Pkg, p.Type)
		c := ex.fresh("l_"+p.Name, s)
		names[p.Name] = tv(c, gt)
		ex.inputs = append(ex.inputs, ModelVar{Name: p.Name, Term: c, GoT: gt})
	}
	env := &SpecEnv{names: names, pkg: lm.Pkg, w: w}
	if lm.TwoState {
		// old(e): e in a second, arbitrary heap
		env.old = &SpecEnv{names: names, pkg: lm.Pkg, w: w, heapOf: func(g *Term) *Term { return cnst(g.Op+"_old", g.S) }}
	}
	mkObl := func(name string, guard, goal *Term, src string) {
		goal = ex.skolemGoal(goal)
		o := &Obligation{Name: lm.Pkg + ".lemma." + lm.Name + "#" + name, Kind: "lemma", Func: lm.Pkg + ".lemma." + lm.Name, Guard: guard, Goal: goal, NDecl: len(ex.decls), Unfold: lm.Unfold, Props: lm.Props, Src: src, ex: ex, Inputs: ex.inputs, Reveal: lm.Reveal}
		if o.Unfold == 0 {
			o.Unfold = 1
		}
		obls = append(obls, o)
	}
	var req, ens []*Term
	for _, c := range lm.Requires {
		req = append(req, w.trSpec(c.E, env).T)
	}
	for _, c := range lm.Ensures {
		ens = append(ens, w.trSpec(c.E, env).T)
	}
	var uses []*Term
	for _, u := range lm.Uses {
		uses = append(uses, w.lemmaInstance(u, env))
	}
	guard := tAnd(append(append([]*Term{}, req...), uses...)...)
	{
		o := &Obligation{Name: lm.Pkg + ".lemma." + lm.Name + "#cover.pre", Kind: "cover", Func: lm.Pkg + ".lemma." + lm.Name, Guard: guard, Goal: tFalse, NDecl: len(ex.decls), Unfold: 1, Props: lm.Props, Src: "lemma hypotheses are satisfiable", ex: ex, Cover: true}
		obls = append(obls, o)
	}
	addHaves := func(g *Term, tag string) *Term {
		for i, h := range lm.Haves {
			ht := w.trSpec(h.E, env).T
			mkObl(fmt.Sprintf("%shave.%s", tag, clauseName(h, i)), g, ht, "have: "+h.Src)
			g = tAnd(g, ht)
		}
		return g
	}
	if lm.Induction == "" {
		guard = addHaves(guard, "")
		for i, e := range ens {
			mkObl(fmt.Sprintf("proof.%s", clauseName(lm.Ensures[i], i)), guard, e, lm.Ensures[i].Src)
		}
		return obls, nil
	}
	k := names[lm.Induction]
	if k == nil {
		return nil, fmt.Errorf("lemma %s: induction variable %s is not a parameter", lm.Name, lm.Induction)
	}
	base := intLit(0)
	if lm.Base != nil {
		base = w.trSpec(lm.Base, env).T
	}
	// base case
	for i, e := range ens {
		mkObl(fmt.Sprintf("base.%s", clauseName(lm.Ensures[i], i)), tAnd(guard, mk("<=", SBool, k.T, base)), e, "base: "+lm.Ensures[i].Src)
	}
	// step: k > base, IH at k-1
	km1 := mk("-", SInt, k.T, intLit(1))
	ihNames := map[string]*Val{}
	for n, v := range names {
		ihNames[n] = v
	}
	ihNames[lm.Induction] = tv(km1, k.GoT)
	ihEnv := &SpecEnv{names: ihNames, pkg: lm.Pkg, w: w}
	if lm.TwoState {
		ihEnv.old = &SpecEnv{names: ihNames, pkg: lm.Pkg, w: w, heapOf: func(g *Term) *Term { return cnst(g.Op+"_old", g.S) }}
	}
	var ihReq, ihEns []*Term
	for _, c := range lm.Requires {
		ihReq = append(ihReq, w.trSpec(c.E, ihEnv).T)
	}
	for _, c := range lm.Ensures {
		ihEns = append(ihEns, w.trSpec(c.E, ihEnv).T)
	}
	ih := tImp(tAnd(ihReq...), tAnd(ihEns...))
	stepGuard := addHaves(tAnd(guard, mk(">", SBool, k.T, base), ih), "step.")
	for i, e := range ens {
		mkObl(fmt.Sprintf("step.%s", clauseName(lm.Ensures[i], i)), stepGuard, e, "step: "+lm.Ensures[i].Src)
	}
	return obls, nil
}

// baseKey strips a contract-variant suffix: "geometry.NewLine@order" -> "geometry.NewLine".
func baseKey(k string) string {
	if i := strings.Index(k, "@"); i >= 0 {
		return k[:i]
	}
	return k
}

func verifyKeys(w *World, keys []string, lemmas []string, smtDir string, timeoutMs, par int, verbose bool, implProp string) []*FuncReport {
	var reports []*FuncReport
	var all []*Obligation
	type span struct{ lo, hi int }
	spans := map[int]span{}
	for _, k := range keys {
		fi := w.Funcs[baseKey(k)]
		fc := w.CS.Funcs[k]
		rep := &FuncReport{Key: k}
		reports = append(reports, rep)
		if fi == nil {
			rep.Err = fmt.Errorf("CONTRACT-STALE: no function %s in the working tree", k)
			continue
		}
		if fc.Trusted || fi.Decl == nil {
			continue
		}
		ex, err := w.verifyFunc(fi, fc)
		rep.Ex = ex
		if err != nil {
			rep.Err = err
			continue
		}
		spans[len(reports)-1] = span{len(all), len(all) + len(ex.obls)}
		all = append(all, ex.obls...)
	}
	for _, ln := range lemmas {
		lm := w.CS.Lemmas[ln]
		rep := &FuncReport{Key: lm.Pkg + ".lemma." + lm.Name}
		reports = append(reports, rep)
		obls, err := w.lemmaObligations(lm)
		if err != nil {
			rep.Err = err
			continue
		}
		spans[len(reports)-1] = span{len(all), len(all) + len(obls)}
		all = append(all, obls...)
	}
	if implProp != "-" {
		iobls, ifuncs := w.implObligations(implProp)
		if len(iobls) > 0 {
			rep := &FuncReport{Key: "behavioural-subtyping"}
			rep.Notes = ifuncs
			reports = append(reports, rep)
			spans[len(reports)-1] = span{len(all), len(all) + len(iobls)}
			all = append(all, iobls...)
		}
	}
	t0 := time.Now()
	results := solveAll(w, all, smtDir, timeoutMs, par)
	_ = t0
	for i, rep := range reports {
		if sp, ok := spans[i]; ok {
			rep.Results = results[sp.lo:sp.hi]
		}
	}
	return reports
}

func cmdVerify(args []string) {
	fs := flag.NewFlagSet("verify", flag.ExitOnError)
	repo := fs.String("repo", "/repo", "repository")
	funcs := fs.String("func", "", "comma separated function keys (default: all with contracts)")
	timeout := fs.Int("timeout", 10000, "per-obligation timeout ms")
	smtDir := fs.String("smt", envOr("GOVC_SMT", "/verif/tmp/smt"), "smt output dir")
	verbose := fs.Bool("v", false, "verbose")
	showOK := fs.Bool("all", false, "list discharged obligations too")
	fs.Parse(args)
	w, err := loadWorld(*repo)
	if err != nil {
		fmt.Fprintln(os.Stderr, "load:", err)
		os.Exit(2)
	}
	var keys, lemmas []string
	if *funcs == "" {
		keys = w.CS.funcKeys()
		lemmas = append(lemmas, w.CS.Order...)
	} else {
		for _, k := range strings.Split(*funcs, ",") {
			if k == "impl" {
				continue // only the behavioural-subtyping obligations
			}
			if _, ok := w.CS.Lemmas[k]; ok {
				lemmas = append(lemmas, k)
			} else if _, ok := w.CS.Funcs[k]; ok {
				keys = append(keys, k)
			} else {
				fmt.Fprintln(os.Stderr, "no contract for", k)
				os.Exit(2)
			}
		}
	}
	implProp := "-"
	if *funcs == "" || *funcs == "impl" {
		implProp = ""
	}
	for _, e := range w.CS.LoadErrors {
		fmt.Println("CONTRACT-LOAD-ERROR", e)
	}
	reps := verifyKeys(w, keys, lemmas, *smtDir, *timeout, 16, *verbose, implProp)
	bad := 0
	for _, r := range reps {
		if r.Err != nil {
			fmt.Printf("%-50s ERROR %v\n", r.Key, r.Err)
			bad++
			continue
		}
		ok, n := 0, 0
		var tt float64
		for _, x := range r.Results {
			n++
			if x.OK || (x.O.Cover && !strings.HasSuffix(x.O.Name, "cover.pre") && expectedDead(w.CS.Funcs[r.Key], x.O.Name)) {
				ok++
			}
			tt += x.R.Time
		}
		fc := w.CS.Funcs[r.Key]
		tag := ""
		if fc != nil && fc.Trusted {
			tag = " (trusted: " + fc.TrustWhy + ")"
		}
		fmt.Printf("%-50s %d/%d discharged  %.1fs%s\n", r.Key, ok, n, tt, tag)
		sort.SliceStable(r.Results, func(i, j int) bool { return false })
		for _, x := range r.Results {
			if x.O.Cover && !x.OK && !strings.HasSuffix(x.O.Name, "cover.pre") && expectedDead(w.CS.Funcs[r.Key], x.O.Name) {
				continue
			}
			if !x.OK || *showOK {
				fmt.Printf("    %-8s %-7s %5.2fs %s  -- %s %s\n", x.R.Status, x.R.Solver, x.R.Time, x.O.Name, x.O.Src, x.Msg)
				if !x.OK {
					bad++
					if x.R.Status == "sat" && *verbose {
						fmt.Println("       model:", firstLines(strings.SplitN(x.R.Output, "\n", 2)[1], 40))
					}
					if x.R.Status == "error" {
						fmt.Println("       ", firstLines(x.R.Output, 5))
					}
				}
			}
		}
		if r.Ex != nil && *verbose {
			for _, n := range r.Ex.notes {
				fmt.Println("    note:", n)
			}
		}
	}
	if bad > 0 {
		os.Exit(1)
	}
}

// cmdList: every function of the module with a body, and its contract status (proved | trusted | partial(only) | none).
func cmdList(args []string) {
	repo := "/repo"
	if len(args) > 0 {
		repo = args[0]
	}
	w, err := loadWorld(repo)
	if err != nil {
		fmt.Fprintln(os.Stderr, "load:", err)
		os.Exit(2)
	}
	var keys []string
	for k, fi := range w.Funcs {
		if fi.Decl != nil && fi.Decl.Body != nil {
			keys = append(keys, k)
		}
	}
	sort.Strings(keys)
	counts := map[string]int{}
	for _, k := range keys {
		st := "none"
		if fc := w.CS.Funcs[k]; fc != nil {
			switch {
			case fc.Trusted:
				st = "trusted"
			case len(fc.Only) > 0:
				st = "partial"
			default:
				st = "proved"
			}
		}
		counts[st]++
		rn := ""
		if fi := w.Funcs[k]; fi.Recv != nil {
			rn = fi.Recv.Name()
		}
		fmt.Printf("%-8s %s\t%s\t%s\n", st, k, rn, w.Funcs[k].Sig.String())
	}
	fmt.Fprintf(os.Stderr, "%v\n", counts)
}
