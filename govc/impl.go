package main

import (
	"fmt"
	"go/types"
	"sort"
)

// implObligations: behavioural subtyping. For every interface method with a contract and every
// named type of the module that implements the interface and has a contract for that method:
//
//	(interface requires && dyn(self)==T)  ==>  implementer requires
//	implementer ensures                   ==>  interface ensures         (same arguments and result)
//
// and the iteration protocols (domain / match / args) must coincide.
func (w *World) implObligations(prop string) (obls []*Obligation, funcs []string) {
	var ikeys []string
	for k, fi := range w.Funcs {
		if fi.Decl == nil && w.CS.Funcs[k] != nil {
			ikeys = append(ikeys, k)
		}
	}
	sort.Strings(ikeys)
	for _, ik := range ikeys {
		ifi := w.Funcs[ik]
		ifc := w.CS.Funcs[ik]
		if prop != "" && !hasProp(ifc.Props, prop) {
			continue
		}
		iface := ifi.Sig.Recv().Type()
		it, ok := iface.Underlying().(*types.Interface)
		if !ok {
			continue
		}
		var ckeys []string
		for ck, cfi := range w.Funcs {
			if cfi.Decl == nil || cfi.Recv == nil || cfi.Obj.Name() != ifi.Obj.Name() || w.CS.Funcs[ck] == nil {
				continue
			}
			rt := cfi.Recv.Type()
			if types.Implements(rt, it) {
				ckeys = append(ckeys, ck)
			}
		}
		sort.Strings(ckeys)
		for _, ck := range ckeys {
			o := w.implPair(ifi, ifc, w.Funcs[ck], w.CS.Funcs[ck])
			obls = append(obls, o...)
			funcs = append(funcs, ck+" implements "+ik)
		}
	}
	return
}

func (w *World) implPair(ifi *FuncInfo, ifc *FuncContract, cfi *FuncInfo, cfc *FuncContract) (obls []*Obligation) {
	w.fresh = 0
	bvCounter = 100000
	ex := &Exec{w: w, arith: "order", assumedCalls: map[string]bool{}, fi: cfi, fc: cfc}
	if cfc.Arith != "" {
		ex.arith = cfc.Arith
	}
	defer func() {
		if r := recover(); r != nil {
			o := &Obligation{Name: cfi.Key + "#impl." + ifi.Key, Kind: "impl", Func: cfi.Key, Guard: tTrue, Goal: tFalse, ex: ex, Props: ifc.Props}
			o.Static = fmt.Sprint("cannot build subtyping obligation: ", r)
			obls = append(obls, o)
		}
	}()
	rt := cfi.Recv.Type()
	// receiver as concrete value and as interface value
	var selfI, selfC *Val
	rs := w.sortOf(rt)
	if rs.Eq(SRef) {
		r := ex.fresh("self", SRef)
		selfC = tv(r, rt)
		selfI = tv(r, ifi.Sig.Recv().Type())
	} else {
		c := ex.fresh("self", rs)
		selfC = tv(c, rt)
		b := mk("box_"+mangle(rs.String()), SRef, c)
		selfI = tv(b, ifi.Sig.Recv().Type())
	}
	guard := tAnd(tNot(tEq(selfI.T, intLit(0))), tEq(dynType(selfI.T), w.typeTag(rt)))
	if !rs.Eq(SRef) {
		guard = tAnd(guard, tEq(mk("unbox_"+mangle(rs.String()), rs, selfI.T), selfC.T))
	}
	irn, ipns := paramNames(ifi)
	crn, cpns := paramNames(cfi)
	inames := map[string]*Val{irn: selfI, "self": selfI}
	cnames := map[string]*Val{crn: selfC, "self": selfC}
	for i := 0; i < ifi.Sig.Params().Len(); i++ {
		pt := ifi.Sig.Params().At(i).Type()
		if _, isFn := pt.Underlying().(*types.Signature); isFn {
			continue
		}
		v := tv(ex.fresh("a_"+ipns[i], w.sortOf(pt)), pt)
		inames[ipns[i]] = v
		cnames[cpns[i]] = v
	}
	rn := resultNames(ifi.Sig)
	crnames := resultNames(cfi.Sig)
	for i, nm := range rn {
		rtp := ifi.Sig.Results().At(i).Type()
		v := tv(ex.fresh("res", w.sortOf(rtp)), rtp)
		inames[nm] = v
		cnames[crnames[i]] = v
		if len(rn) == 1 {
			inames["result"] = v
			cnames["result"] = v
		}
	}
	ipkg, cpkg := shortPkg(ifi.Pkg.PkgPath), shortPkg(cfi.Pkg.PkgPath)
	ienv := &SpecEnv{names: inames, pkg: ipkg, w: w}
	cenv := &SpecEnv{names: cnames, pkg: cpkg, w: w}
	ienv.old, cenv.old = ienv, cenv
	var ireq, creq, iens, cens []*Term
	for _, c := range ifc.Requires {
		ireq = append(ireq, w.trSpec(c.E, ienv).T)
	}
	for _, c := range cfc.Requires {
		creq = append(creq, w.trSpec(c.E, cenv).T)
	}
	for _, c := range cfc.Ensures {
		cens = append(cens, w.trSpec(c.E, cenv).T)
	}
	mkO := func(name string, g, goal *Term, src string) {
		obls = append(obls, &Obligation{Name: cfi.Key + "#impl." + name, Kind: "impl", Func: cfi.Key, Guard: g, Goal: goal, NDecl: len(ex.decls), Unfold: 1, Props: ifc.Props, Src: src, ex: ex})
	}
	base := tAnd(guard, tAnd(ireq...))
	for i, c := range cfc.Requires {
		mkO(fmt.Sprintf("pre.%s", clauseName(c, i)), base, creq[i], "interface precondition implies implementer precondition: "+c.Src)
	}
	for i, c := range ifc.Ensures {
		iens = append(iens, w.trSpec(c.E, ienv).T)
		mkO(fmt.Sprintf("post.%s", clauseName(c, i)), tAnd(base, tAnd(cens...)), iens[i], "implementer postcondition implies interface postcondition: "+c.Src)
	}
	if ifc.Iter != nil {
		if cfc.Iter == nil {
			o := &Obligation{Name: cfi.Key + "#impl.iter", Kind: "impl", Func: cfi.Key, Guard: tTrue, Goal: tFalse, ex: ex, Props: ifc.Props, Static: "implementer has no iteration protocol"}
			obls = append(obls, o)
			return
		}
		i := tv(ex.fresh("idx", SInt), types.Typ[types.Int])
		ie := ienv.with(map[string]*Val{ifc.Iter.IdxVar: i})
		ce := cenv.with(map[string]*Val{cfc.Iter.IdxVar: i})
		idm := tAnd(w.trSpec(ifc.Iter.Dom, ie).T, w.trSpec(ifc.Iter.Match, ie).T)
		cdm := tAnd(w.trSpec(cfc.Iter.Dom, ce).T, w.trSpec(cfc.Iter.Match, ce).T)
		mkO("iter.sameSet", base, tEq(idm, cdm), "interface and implementer report the same index set")
		mkO("iter.sameDom", base, tEq(w.trSpec(ifc.Iter.Dom, ie).T, w.trSpec(cfc.Iter.Dom, ce).T), "interface and implementer have the same index domain")
		for k := range ifc.Iter.Args {
			if k < len(cfc.Iter.Args) {
				a := w.trSpec(ifc.Iter.Args[k], ie).T
				b := w.trSpec(cfc.Iter.Args[k], ce).T
				mkO(fmt.Sprintf("iter.arg%d", k), tAnd(base, cdm), tEq(a, b), "callback argument agrees with the interface protocol")
			}
		}
	}
	return
}
