package main

import (
	"fmt"
	"go/types"
	"sort"
)

// implObligations: behavioural subtyping. For every interface method with a contract and every
// named type of the module that implements the interface and has a contract for that method:
//
//	(interface requires && dyn(self)==T)  ==>  implementer requires
//	implementer ensures                   ==>  interface ensures         (same arguments and result)
//
// and the iteration protocols (domain / match / args) must coincide.
func (w *World) implObligations(prop string) (obls []*Obligation, funcs []string) {
	var ikeys []string
	for k, fi := range w.Funcs {
		if fi.Decl == nil && w.CS.Funcs[k] != nil {
			ikeys = append(ikeys, k)
		}
	}
	sort.Strings(ikeys)
	for _, ik := range ikeys {
		ifi := w.Funcs[ik]
		ifc := w.CS.Funcs[ik]
		if prop != "" && !hasProp(ifc.Props, prop) {
			continue
		}
		iface := ifi.Sig.Recv().Type()
		it, ok := iface.Underlying().(*types.Interface)
		if !ok {
			continue
		}
		var ckeys []string
		for ck, cfi := range w.Funcs {
			if cfi.Decl == nil || cfi.Recv == nil || cfi.Obj.Name() != ifi.Obj.Name() || w.CS.Funcs[ck] == nil {
				continue
			}
			rt := cfi.Recv.Type()
			if types.Implements(rt, it) {
				ckeys = append(ckeys, ck)
			}
		}
		sort.Strings(ckeys)
		for _, ck := range ckeys {
			o := w.implPair(ifi, ifc, w.Funcs[ck], w.CS.Funcs[ck], nil, nil)
			obls = append(obls, o...)
			funcs = append(funcs, ck+" implements "+ik)
		}
		// promoted methods: a named struct type T of the module that implements the interface through a method of an
		// embedded struct field (T.collection.Valid for *MultiPoint): same obligations with self = the embedded sub-object.
		var pnames []string
		ptypes := map[string]*types.Named{}
		for _, pk := range w.Pkgs {
			sc := pk.Types.Scope()
			for _, nm := range sc.Names() {
				tn, ok := sc.Lookup(nm).(*types.TypeName)
				if !ok || tn.IsAlias() {
					continue
				}
				named, ok := tn.Type().(*types.Named)
				if !ok {
					continue
				}
				if _, isStruct := named.Underlying().(*types.Struct); !isStruct {
					continue
				}
				pnames = append(pnames, pk.PkgPath+"."+nm)
				ptypes[pk.PkgPath+"."+nm] = named
			}
		}
		sort.Strings(pnames)
		for _, pn := range pnames {
			named := ptypes[pn]
			pt := types.NewPointer(named)
			if !types.Implements(pt, it) {
				continue
			}
			sel := types.NewMethodSet(pt).Lookup(ifi.Obj.Pkg(), ifi.Obj.Name())
			if sel == nil {
				sel = types.NewMethodSet(pt).Lookup(named.Obj().Pkg(), ifi.Obj.Name())
			}
			if sel == nil || len(sel.Index()) < 2 {
				continue
			}
			m, ok := sel.Obj().(*types.Func)
			if !ok {
				continue
			}
			cfi := w.ByObj[m]
			if cfi == nil || cfi.Decl == nil || w.CS.Funcs[cfi.Key] == nil {
				continue
			}
			o := w.implPair(ifi, ifc, cfi, w.CS.Funcs[cfi.Key], pt, sel.Index()[:len(sel.Index())-1])
			obls = append(obls, o...)
			funcs = append(funcs, cfi.Key+" (promoted to "+named.Obj().Name()+") implements "+ik)
		}
	}
	return
}

func (w *World) implPair(ifi *FuncInfo, ifc *FuncContract, cfi *FuncInfo, cfc *FuncContract, outer types.Type, path []int) (obls []*Obligation) {
	w.fresh = 0
	bvCounter = 100000
	ex := &Exec{w: w, arith: "order", assumedCalls: map[string]bool{}, fi: cfi, fc: cfc}
	if cfc.Arith != "" {
		ex.arith = cfc.Arith
	}
	defer func() {
		if r := recover(); r != nil {
			o := &Obligation{Name: cfi.Key + "#impl." + ifi.Key + promotedSuffix(outer), Kind: "impl", Func: cfi.Key, Guard: tTrue, Goal: tFalse, ex: ex, Props: ifc.Props}
			o.Static = fmt.Sprint("cannot build subtyping obligation: ", r)
			obls = append(obls, o)
		}
	}()
	rt := cfi.Recv.Type()
	oname := cfi.Key
	// receiver as concrete value and as interface value
	var selfI, selfC *Val
	subFact := tTrue
	rs := w.sortOf(rt)
	if outer != nil {
		// promoted method: the interface value holds the outer object, the method receives the embedded sub-object
		named := namedOf(outer)
		oname = cfi.Key + "@" + named.Obj().Name()
		r := ex.fresh("self", SRef)
		selfI = tv(r, ifi.Sig.Recv().Type())
		cur := r
		ct := types.Type(named)
		for _, idx := range path {
			on := namedOf(ct)
			f := on.Underlying().(*types.Struct).Field(idx)
			if !w.isRefStruct(f.Type()) {
				panic("promotion through a non-struct embedded field is not supported")
			}
			cur = subRefTerm(cur, on, f)
			ct = f.Type()
		}
		selfC = tv(cur, rt)
		rt = outer
		rs = SRef
		subFact = tAnd(tNot(tEq(cur, intLit(0))), ex.ptrTypeFact(cur, cfi.Recv.Type()))
	} else if rs.Eq(SRef) {
		r := ex.fresh("self", SRef)
		selfC = tv(r, rt)
		selfI = tv(r, ifi.Sig.Recv().Type())
	} else {
		c := ex.fresh("self", rs)
		selfC = tv(c, rt)
		b := mk("box_"+mangle(rs.String()), SRef, c)
		selfI = tv(b, ifi.Sig.Recv().Type())
	}
	guard := tAnd(tNot(tEq(selfI.T, intLit(0))), tEq(dynType(selfI.T), w.typeTag(rt)))
	if !rs.Eq(SRef) {
		guard = tAnd(guard, tEq(mk("unbox_"+mangle(rs.String()), rs, selfI.T), selfC.T))
	}
	guard = tAnd(guard, subFact)
	irn, ipns := paramNames(ifi)
	crn, cpns := paramNames(cfi)
	inames := map[string]*Val{irn: selfI, "self": selfI}
	cnames := map[string]*Val{crn: selfC, "self": selfC}
	for i := 0; i < ifi.Sig.Params().Len(); i++ {
		pt := ifi.Sig.Params().At(i).Type()
		if _, isFn := pt.Underlying().(*types.Signature); isFn {
			continue
		}
		v := tv(ex.fresh("a_"+ipns[i], w.sortOf(pt)), pt)
		inames[ipns[i]] = v
		cnames[cpns[i]] = v
	}
	rn := resultNames(ifi.Sig)
	crnames := resultNames(cfi.Sig)
	for i, nm := range rn {
		rtp := ifi.Sig.Results().At(i).Type()
		v := tv(ex.fresh("res", w.sortOf(rtp)), rtp)
		inames[nm] = v
		cnames[crnames[i]] = v
		if len(rn) == 1 {
			inames["result"] = v
			cnames["result"] = v
		}
	}
	ipkg, cpkg := shortPkg(ifi.Pkg.PkgPath), shortPkg(cfi.Pkg.PkgPath)
	ienv := &SpecEnv{names: inames, pkg: ipkg, w: w}
	cenv := &SpecEnv{names: cnames, pkg: cpkg, w: w}
	ienv.old, cenv.old = ienv, cenv
	if ifc.Iter != nil || cfc.Iter != nil {
		// protocol ghosts: the same final `seen` / `stopped` for both contracts; initially nothing seen, not stopped
		setS := arraySort(SInt, SBool)
		seen := tv(ex.fresh("seen", setS), nil)
		stopped := tv(ex.fresh("stopped", SBool), nil)
		empty := tv(&Term{Op: "(as const " + setS.String() + ")", Args: []*Term{tFalse}, S: setS}, nil)
		ienv = ienv.with(map[string]*Val{"seen": seen, "stopped": stopped})
		cenv = cenv.with(map[string]*Val{"seen": seen, "stopped": stopped})
		ienv.old = ienv.with(map[string]*Val{"seen": empty, "stopped": tv(tFalse, nil)})
		cenv.old = cenv.with(map[string]*Val{"seen": empty, "stopped": tv(tFalse, nil)})
		ienv.old.old, cenv.old.old = ienv.old, cenv.old
	}
	var ireq, creq, iens, cens []*Term
	for _, c := range ifc.Requires {
		ireq = append(ireq, w.trSpec(c.E, ienv).T)
	}
	for _, c := range cfc.Requires {
		creq = append(creq, w.trSpec(c.E, cenv).T)
	}
	for _, c := range cfc.Ensures {
		cens = append(cens, w.trSpec(c.E, cenv).T)
	}
	if cfc.PureAs != "" && len(rn) == 1 {
		// `pureas F`: the implementer's result IS the mathematical function F of receiver and arguments
		if sf := w.findSpec(cpkg, cfc.PureAs); sf != nil && sf.Body == nil {
			ts := []*Term{selfC.T}
			for i := 0; i < cfi.Sig.Params().Len(); i++ {
				if v, ok := cnames[cpns[i]]; ok {
					ts = append(ts, v.T)
				}
			}
			if len(ts) == len(sf.Params) {
				for i := range ts {
					ps, _ := w.resolveSpecType(sf.Pkg, sf.Params[i].Type)
					if ts[i].S.Kind == KInt && ps.Kind == KReal {
						ts[i] = toReal(ts[i])
					}
				}
				rs, _ := w.resolveSpecType(sf.Pkg, sf.Ret)
				cens = append(cens, tEq(cnames[crnames[0]].T, mk(specFuncSMTName(sf), rs, ts...)))
			}
		}
	}
	mkO := func(name string, g, goal *Term, src string) {
		obls = append(obls, &Obligation{Name: oname + "#impl." + name, Kind: "impl", Func: cfi.Key, Guard: g, Goal: goal, NDecl: len(ex.decls), Unfold: 2, Props: ifc.Props, Src: src, ex: ex})
	}
	base := tAnd(guard, tAnd(ireq...))
	for i, c := range cfc.Requires {
		mkO(fmt.Sprintf("pre.%s", clauseName(c, i)), base, creq[i], "interface precondition implies implementer precondition: "+c.Src)
	}
	for i, c := range ifc.Ensures {
		iens = append(iens, w.trSpec(c.E, ienv).T)
		mkO(fmt.Sprintf("post.%s", clauseName(c, i)), tAnd(base, tAnd(cens...)), iens[i], "implementer postcondition implies interface postcondition: "+c.Src)
	}
	if ifc.Iter != nil {
		if cfc.Iter == nil {
			o := &Obligation{Name: oname + "#impl.iter", Kind: "impl", Func: cfi.Key, Guard: tTrue, Goal: tFalse, ex: ex, Props: ifc.Props, Static: "implementer has no iteration protocol"}
			obls = append(obls, o)
			return
		}
		i := tv(ex.fresh("idx", SInt), types.Typ[types.Int])
		ie := ienv.with(map[string]*Val{ifc.Iter.IdxVar: i})
		ce := cenv.with(map[string]*Val{cfc.Iter.IdxVar: i})
		idm := tAnd(w.trSpec(ifc.Iter.Dom, ie).T, w.trSpec(ifc.Iter.Match, ie).T)
		cdm := tAnd(w.trSpec(cfc.Iter.Dom, ce).T, w.trSpec(cfc.Iter.Match, ce).T)
		mkO("iter.sameSet", base, tEq(idm, cdm), "interface and implementer report the same index set")
		mkO("iter.sameDom", base, tEq(w.trSpec(ifc.Iter.Dom, ie).T, w.trSpec(cfc.Iter.Dom, ce).T), "interface and implementer have the same index domain")
		for k := range ifc.Iter.Args {
			if k < len(cfc.Iter.Args) {
				a := w.trSpec(ifc.Iter.Args[k], ie).T
				b := w.trSpec(cfc.Iter.Args[k], ce).T
				mkO(fmt.Sprintf("iter.arg%d", k), tAnd(base, cdm), tEq(a, b), "callback argument agrees with the interface protocol")
			}
		}
	}
	return
}

func promotedSuffix(outer types.Type) string {
	if outer == nil {
		return ""
	}
	return "@" + namedOf(outer).Obj().Name()
}
