package main

import (
	"bytes"
	"context"
	"fmt"
	"os"
	"os/exec"
	"path/filepath"
	"runtime"
	"sort"
	"strconv"
	"strings"
	"sync"
	"syscall"
	"time"
)

var smtBuiltins = map[string]bool{
	"and": true, "or": true, "not": true, "=>": true, "=": true, "ite": true, "+": true, "-": true, "*": true, "/": true,
	"<": true, "<=": true, ">": true, ">=": true, "div": true, "mod": true, "select": true, "store": true,
	"to_real": true, "to_int": true, "is_int": true, "is_int_dom": true, "i2r": true, "true": true, "false": true, "forall": true, "exists": true, "distinct": true,
}

type smtBuilder struct {
	w         *World
	ex        *Exec
	declMap   map[string]*Decl
	needDecl  map[string]bool
	specUsed  map[string]*SpecDef
	specOrder []string
	unint     map[string]string // name -> declaration
	consts    map[string]*Sort
	recInst   []*Term
	instSeen  map[string]bool
	ufmul     bool
	memo      map[*Term]*Term
	ownDepth  map[string]int
	foralls   []*Term
	fseen     map[*Term]bool
	reveal    map[string]bool
}

func (sb *smtBuilder) pr(t *Term) string {
	if sb.ufmul {
		return abstractMul(t, sb.memo).String()
	}
	return t.String()
}

func (w *World) specBySMT(name string) *SpecFunc {
	if !strings.HasPrefix(name, "S_") {
		return nil
	}
	for _, sf := range w.CS.Specs {
		if specFuncSMTName(sf) == name {
			return sf
		}
	}
	return nil
}

var specDefCache = map[*SpecFunc]*SpecDef{}

func (w *World) specDefCached(sf *SpecFunc) *SpecDef {
	if d, ok := specDefCache[sf]; ok {
		return d
	}
	d := w.specDef(sf)
	specDefCache[sf] = d
	return d
}

func hasBoundVar(t *Term, bound map[string]bool) bool {
	found := false
	var rec func(t *Term, b map[string]bool)
	rec = func(t *Term, b map[string]bool) {
		if found {
			return
		}
		if t.BVars != nil {
			nb := map[string]bool{}
			for k := range b {
				nb[k] = true
			}
			for _, v := range t.BVars {
				nb[v.Op] = true
			}
			rec(t.Args[0], nb)
			return
		}
		if len(t.Args) == 0 && b[t.Op] {
			found = true
			return
		}
		for _, a := range t.Args {
			rec(a, b)
		}
	}
	rec(t, bound)
	return found
}

// scan collects declarations needed by t and instantiates recursive spec functions.
func (sb *smtBuilder) scan(t *Term, depth int, bound map[string]bool) {
	if t.BVars != nil && t.Op == "forall" && len(bound) == 0 && sb.fseen != nil && !sb.fseen[t] {
		sb.fseen[t] = true
		sb.foralls = append(sb.foralls, t)
	}
	if t.BVars != nil {
		nb := map[string]bool{}
		for k := range bound {
			nb[k] = true
		}
		for _, v := range t.BVars {
			nb[v.Op] = true
		}
		sb.scan(t.Args[0], depth, nb)
		return
	}
	if len(t.Args) == 0 {
		if bound[t.Op] || smtBuiltins[t.Op] {
			return
		}
		c := t.Op[0]
		if (c >= '0' && c <= '9') || c == '-' {
			return
		}
		if d, ok := sb.declMap[t.Op]; ok {
			if !sb.needDecl[t.Op] {
				sb.needDecl[t.Op] = true
				if d.Def != nil {
					sb.scan(d.Def, depth, nil)
				}
			}
			return
		}
		if sf := sb.w.specBySMT(t.Op); sf != nil {
			sb.useSpec(sf, t, depth, bound)
			return
		}
		if strings.HasPrefix(t.Op, "(") { // (as const ...)
			return
		}
		if t.S != nil && t.S.Kind == KDT && len(t.S.Fields) == 0 && t.Op == "mk_"+t.S.Name {
			return // the nullary constructor of a zero-field struct (EmptySpatial{}): declared with its datatype
		}
		sb.consts[t.Op] = t.S
		return
	}
	for _, a := range t.Args {
		sb.scan(a, depth, bound)
	}
	if smtBuiltins[t.Op] || strings.HasPrefix(t.Op, "(as const") {
		return
	}
	if strings.HasPrefix(t.Op, "mk_") {
		return
	}
	if t.Args[0].S != nil && t.Args[0].S.Kind == KDT && strings.HasPrefix(t.Op, t.Args[0].S.Name+"_") && len(t.Args) == 1 {
		return // accessor
	}
	if sf := sb.w.specBySMT(t.Op); sf != nil {
		sb.useSpec(sf, t, depth, bound)
		return
	}
	// uninterpreted function
	if _, ok := sb.unint[t.Op]; !ok {
		var as []string
		for _, a := range t.Args {
			as = append(as, a.S.String())
		}
		sb.unint[t.Op] = fmt.Sprintf("(declare-fun %s (%s) %s)", t.Op, strings.Join(as, " "), t.S)
	}
}

func (sb *smtBuilder) useSpec(sf *SpecFunc, app *Term, depth int, bound map[string]bool) {
	name := specFuncSMTName(sf)
	d := sb.w.specDefCached(sf)
	if _, ok := sb.specUsed[name]; !ok {
		sb.specUsed[name] = d
		if d.Body != nil && !sf.Rec {
			// dependencies of a define-fun / opaque body (params are bound)
			pb := map[string]bool{}
			for _, p := range d.Params {
				pb[p.Op] = true
			}
			sb.scan(d.Body, 0, pb)
		}
		sb.specOrder = append(sb.specOrder, name)
	}
	if d.Body == nil {
		return
	}
	if hasBoundVar(app, bound) {
		return
	}
	// expand
	m := map[string]*Term{}
	for i, p := range d.Params {
		m[p.Op] = app.Args[i]
	}
	if sf.Rec {
		key := app.String()
		if sb.instSeen[key] {
			return
		}
		if sf.Hidden && !sb.reveal[sf.Name] {
			return
		}
		if sf.MaxUnfold > 0 {
			// this function has its own unfolding budget along a chain of nested unfoldings
			if sb.ownDepth[name] >= sf.MaxUnfold {
				return
			}
			sb.instSeen[key] = true
			body := d.Body.subst(m)
			sb.recInst = append(sb.recInst, tEq(app, body))
			sb.ownDepth[name]++
			sb.scan(body, depth, bound)
			sb.ownDepth[name]--
			return
		}
		if depth <= 0 {
			return
		}
		sb.instSeen[key] = true
		body := d.Body.subst(m)
		sb.recInst = append(sb.recInst, tEq(app, body))
		sb.scan(body, depth-1, bound)
		return
	}
	if sf.Opaque {
		return
	}
	// non-recursive: look through the macro for recursive applications
	key := "macro:" + app.String()
	if sb.instSeen[key] {
		return
	}
	sb.instSeen[key] = true
	sb.scan(d.Body.subst(m), depth, bound)
}

// abstractMul replaces nonlinear products by an uninterpreted function (sound abstraction:
// a proof that holds for every interpretation of umul holds for real multiplication).
func abstractMul(t *Term, memo map[*Term]*Term) *Term {
	if r, ok := memo[t]; ok {
		return r
	}
	var r *Term
	if len(t.Args) == 0 {
		r = t
	} else {
		args := make([]*Term, len(t.Args))
		ch := false
		for i, a := range t.Args {
			args[i] = abstractMul(a, memo)
			if args[i] != a {
				ch = true
			}
		}
		op := t.Op
		if op == "*" && len(args) == 2 && !isNumLit(args[0]) && !isNumLit(args[1]) {
			op = "umul_" + strings.ToLower(t.S.String())
			ch = true
		}
		if op == "is_int" {
			op = "uisint"
			ch = true
		}
		if ch {
			r = &Term{Op: op, Args: args, S: t.S, BVars: t.BVars}
		} else {
			r = t
		}
	}
	memo[t] = r
	return r
}

func isNumLit(t *Term) bool {
	if len(t.Args) == 0 {
		c := t.Op[0]
		return c >= '0' && c <= '9'
	}
	if t.Op == "-" && len(t.Args) == 1 {
		return isNumLit(t.Args[0])
	}
	if t.Op == "/" && len(t.Args) == 2 {
		return isNumLit(t.Args[0]) && isNumLit(t.Args[1])
	}
	return false
}

func (o *Obligation) smt(w *World, extraAsserts []*Term, getValues []*Term, weaken bool) string {
	return o.smtMode(w, extraAsserts, getValues, weaken, false)
}

func (o *Obligation) smtMode(w *World, extraAsserts []*Term, getValues []*Term, weaken bool, ufmul bool) string {
	sb := &smtBuilder{w: w, ex: o.ex, declMap: map[string]*Decl{}, needDecl: map[string]bool{}, specUsed: map[string]*SpecDef{}, unint: map[string]string{}, consts: map[string]*Sort{}, instSeen: map[string]bool{}}
	var decls []Decl
	if o.ex != nil {
		decls = o.ex.decls[:o.NDecl]
	}
	for i := range decls {
		sb.declMap[decls[i].Name] = &decls[i]
	}
	depth := o.Unfold
	if depth <= 0 {
		depth = 1
	}
	sb.ufmul = ufmul
	sb.memo = map[*Term]*Term{}
	sb.ownDepth = map[string]int{}
	sb.fseen = map[*Term]bool{}
	sb.reveal = map[string]bool{}
	for _, r := range o.Reveal {
		sb.reveal[r] = true
	}
	sb.scan(o.Guard, depth, nil)
	sb.scan(o.Goal, depth, nil)
	// skolem-directed pre-instantiation: for every universally quantified formula F in the context and every
	// skolem constant c of the goal, add the tautology F => F[c]; its ground applications of recursive spec
	// functions then get their defining equations
	var skolemInst []*Term
	if !o.Cover {
		sks := map[string]*Term{}
		o.Goal.walk(func(x *Term) {
			if len(x.Args) == 0 && strings.HasPrefix(x.Op, "sk_") {
				sks[x.Op] = x
			}
			// members tested against a set in the goal are instantiation candidates as well
			if x.Op == "select" && len(x.Args) == 2 && x.Args[0].S.Kind == KArray && x.Args[0].S.Elem.Kind == KBool && !hasBoundVar(x.Args[1], nil) && x.BVars == nil {
				k := x.Args[1].String()
				if len(k) < 200 {
					sks["~"+k] = x.Args[1]
				}
			}
		})
		if len(sks) > 0 && len(sks) <= 4 {
			fs := sb.foralls
			for _, f := range fs {
				var combos []map[string]*Term
				combos = append(combos, map[string]*Term{})
				for _, bv := range f.BVars {
					var next []map[string]*Term
					for _, c := range combos {
						for _, k := range sortedKeys(sks) {
							if !sks[k].S.Eq(bv.S) {
								continue
							}
							m := map[string]*Term{}
							for a, b := range c {
								m[a] = b
							}
							m[bv.Op] = sks[k]
							next = append(next, m)
						}
					}
					combos = next
					if len(combos) > 16 {
						combos = combos[:16]
					}
				}
				for _, m := range combos {
					if len(m) != len(f.BVars) {
						continue
					}
					inst := f.Args[0].subst(m)
					skolemInst = append(skolemInst, inst)
				}
			}
			for _, t := range skolemInst {
				sb.scan(t, depth, nil)
			}
		}
	}
	for _, a := range extraAsserts {
		sb.scan(a, depth, nil)
	}
	for _, g := range getValues {
		sb.scan(g, 0, nil)
	}
	var b strings.Builder
	logic := "ALL"
	b.WriteString("(set-option :produce-models true)\n(set-logic " + logic + ")\n")
	b.WriteString(w.Reg.decls())
	if ufmul {
		// integrality as an uninterpreted predicate (facts kept, no integer reasoning)
		weaken = false
		b.WriteString("(declare-fun uisint (Real) Bool)\n(define-fun is_int_dom ((x Real)) Bool (uisint x))\n(define-fun i2r ((x Int)) Real (to_real x))\n")
	} else if weaken {
		b.WriteString("(define-fun is_int_dom ((x Real)) Bool true)\n(define-fun i2r ((x Real)) Real x)\n")
	} else {
		b.WriteString("(define-fun is_int_dom ((x Real)) Bool (is_int x))\n(define-fun i2r ((x Int)) Real (to_real x))\n")
	}
	for _, k := range sortedKeys(sb.consts) {
		fmt.Fprintf(&b, "(declare-const %s %s)\n", k, sb.consts[k])
	}
	for _, k := range sortedKeys(sb.unint) {
		b.WriteString(sb.unint[k] + "\n")
	}
	if ufmul {
		b.WriteString("(declare-fun umul_real (Real Real) Real)\n(declare-fun umul_int (Int Int) Int)\n")
	}
	if d := sb.unint["isinf"]; strings.Contains(d, "(Real Int)") {
		// math.IsInf(x, sign): sign > 0 asks for +Inf, sign < 0 for -Inf, sign == 0 for either (package math)
		b.WriteString("(assert (forall ((x$ Real) (s$ Int)) (! (= (isinf x$ s$) (ite (> s$ 0) (isinf x$ 1) (ite (< s$ 0) (isinf x$ (- 1)) (or (isinf x$ 1) (isinf x$ (- 1)))))) :pattern ((isinf x$ s$)))))\n")
	}
	// string literals: pairwise distinct, known lengths and bytes; substring axiom
	{
		var lits []string
		for _, k := range sortedKeys(sb.consts) {
			if strings.HasPrefix(k, "str_") && sb.consts[k].Kind == KUnint {
				lits = append(lits, k)
			}
		}
		if len(lits) > 0 || sb.unint["strlen"] != "" || sb.unint["strAt"] != "" || sb.unint["strSub"] != "" {
			if sb.unint["strlen"] == "" {
				b.WriteString("(declare-fun strlen (Str) Int)\n")
				sb.unint["strlen"] = "declared"
			}
			if sb.unint["strAt"] == "" {
				b.WriteString("(declare-fun strAt (Str Int) Int)\n")
				sb.unint["strAt"] = "declared"
			}
			b.WriteString("(assert (forall ((s$ Str)) (! (>= (strlen s$) 0) :pattern ((strlen s$)))))\n")
			if sb.unint["strSub"] != "" {
				b.WriteString("(assert (forall ((s$ Str) (lo$ Int) (hi$ Int) (i$ Int)) (! (= (strAt (strSub s$ lo$ hi$) i$) (strAt s$ (+ lo$ i$))) :pattern ((strAt (strSub s$ lo$ hi$) i$)))))\n")
			}
		}
		if len(lits) > 1 {
			b.WriteString("(assert (distinct " + strings.Join(lits, " ") + "))\n")
		}
		for _, l := range lits {
			if l == "str_empty" {
				b.WriteString("(assert (= (strlen str_empty) 0))\n")
				continue
			}
			hex := strings.TrimPrefix(l, "str_")
			n := len(hex) / 2
			fmt.Fprintf(&b, "(assert (= (strlen %s) %d))\n", l, n)
			for i := 0; i < n && i < 64; i++ {
				var v int
				fmt.Sscanf(hex[2*i:2*i+2], "%x", &v)
				fmt.Fprintf(&b, "(assert (= (strAt %s %d) %d))\n", l, i, v)
			}
		}
		// a string of length 0 is the empty string (the only extensionality fact needed: `s == ""` tests)
		for _, l := range lits {
			if l == "str_empty" {
				b.WriteString("(assert (forall ((s$ Str)) (! (=> (= (strlen s$) 0) (= s$ str_empty)) :pattern ((strlen s$)))))\n")
			}
		}
	}
	// boxing a value struct into an interface: injective, non-nil, with the value's dynamic type
	for _, k := range sortedKeys(sb.unint) {
		if strings.HasPrefix(k, "box_") {
			sn := strings.TrimPrefix(k, "box_")
			if tag, ok := w.boxTags[sn]; ok {
				if _, hasUnbox := sb.unint["unbox_"+sn]; !hasUnbox {
					fmt.Fprintf(&b, "(declare-fun unbox_%s (Int) %s)\n", sn, sn)
				}
				if _, hasDyn := sb.unint["dyntype"]; !hasDyn {
					b.WriteString("(declare-fun dyntype (Int) Int)\n")
					sb.unint["dyntype"] = "declared"
				}
				fmt.Fprintf(&b, "(assert (forall ((v$ %s)) (! (and (= (unbox_%s (box_%s v$)) v$) (= (dyntype (box_%s v$)) %s) (not (= (box_%s v$) 0))) :pattern ((box_%s v$)))))\n", sn, sn, sn, sn, tag, sn, sn)
			}
		}
	}
	// spec functions: declare all first (recursive: declare-fun), then define non-rec in dependency order
	// simple approach: recursive ones declared up front; non-rec emitted in reverse discovery order (deps discovered later)
	for _, name := range sb.specOrder {
		d := sb.specUsed[name]
		if d.SF.Rec || d.SF.Opaque || d.Body == nil {
			var ps []string
			for _, p := range d.Params {
				ps = append(ps, p.S.String())
			}
			fmt.Fprintf(&b, "(declare-fun %s (%s) %s)\n", name, strings.Join(ps, " "), d.Ret)
		}
	}
	emitted := map[string]bool{}
	var opaqueAx strings.Builder
	var emit func(name string)
	emit = func(name string) {
		if emitted[name] {
			return
		}
		emitted[name] = true
		d := sb.specUsed[name]
		if d.SF.Rec || d.Body == nil {
			return
		}
		if d.SF.Opaque {
			// deps first, then the definitional axiom, triggered on the application
			d.Body.walk(func(t *Term) {
				if _, ok := sb.specUsed[t.Op]; ok && t.Op != name {
					emit(t.Op)
				}
			})
			var ps, as []string
			for _, p := range d.Params {
				ps = append(ps, fmt.Sprintf("(%s %s)", p.Op, p.S))
				as = append(as, p.Op)
			}
			app := "(" + name + " " + strings.Join(as, " ") + ")"
			fmt.Fprintf(&opaqueAx, "(assert (forall (%s) (! (= %s %s) :pattern (%s))))\n", strings.Join(ps, " "), app, sb.pr(d.Body), app)
			return
		}
		// emit deps first
		d.Body.walk(func(t *Term) {
			if _, ok := sb.specUsed[t.Op]; ok && t.Op != name {
				emit(t.Op)
			}
		})
		var ps []string
		for _, p := range d.Params {
			ps = append(ps, fmt.Sprintf("(%s %s)", p.Op, p.S))
		}
		fmt.Fprintf(&b, "(define-fun %s (%s) %s %s)\n", name, strings.Join(ps, " "), d.Ret, sb.pr(d.Body))
	}
	for _, name := range sb.specOrder {
		emit(name)
	}
	b.WriteString(opaqueAx.String())
	for i := range decls {
		d := &decls[i]
		if !sb.needDecl[d.Name] {
			continue
		}
		if d.Def == nil {
			if d.Dom && weaken {
				fmt.Fprintf(&b, "(declare-const %s Real)\n", d.Name)
				continue
			}
			fmt.Fprintf(&b, "(declare-const %s %s)\n", d.Name, d.S)
			if d.Dom && ufmul {
				fmt.Fprintf(&b, "(assert (uisint (i2r %s)))\n", d.Name)
			}
		} else {
			fmt.Fprintf(&b, "(define-fun %s () %s %s)\n", d.Name, d.S, sb.pr(d.Def))
		}
	}
	for _, inst := range sb.recInst {
		fmt.Fprintf(&b, "(assert %s)\n", sb.pr(inst))
	}
	for _, a := range extraAsserts {
		fmt.Fprintf(&b, "(assert %s)\n", sb.pr(a))
	}
	// (the instances themselves are not asserted: the solver's own instantiation produces them; they only
	// served to discover which ground applications of recursive spec functions need their defining equations)
	fmt.Fprintf(&b, "(assert %s)\n", sb.pr(o.Guard))
	if !o.Cover {
		fmt.Fprintf(&b, "(assert (not %s))\n", sb.pr(o.Goal))
	}
	b.WriteString("(check-sat)\n")
	if len(getValues) > 0 {
		var vs []string
		for _, g := range getValues {
			vs = append(vs, g.String())
		}
		fmt.Fprintf(&b, "(get-value (%s))\n", strings.Join(vs, " "))
	}
	return b.String()
}

// ---------------------------------------------------------------- running solvers

type SolveResult struct {
	Status string // unsat, sat, unknown, timeout, error
	Solver string
	Time   float64
	Output string
	File   string
}

type solverSpec struct {
	name string
	args func(file string, timeoutMs int) []string
}

// z3 with model-based quantifier instantiation off: E-matching only (much faster on the quantified obligations);
// its "sat"/"unknown" answers mean nothing, only "unsat" is used
var z3ematch = solverSpec{"z3-new(ematch)", func(f string, t int) []string {
	return []string{"z3-new", fmt.Sprintf("-t:%d", t), "smt.mbqi=false", "smt.qi.max_multi_patterns=1000", f}
}}

// the older z3 with E-matching only and its automatic configuration off: decides some array/store goals with nested
// quantifiers instantly where the newer release's E-matching loops; again only "unsat" is used
var z3oldEmatch = solverSpec{"z3(ematch)", func(f string, t int) []string {
	return []string{"z3", fmt.Sprintf("-t:%d", t), "smt.mbqi=false", "smt.auto_config=false", f}
}}

var solvers = []solverSpec{
	{"z3-new", func(f string, t int) []string { return []string{"z3-new", fmt.Sprintf("-t:%d", t), f} }},
	{"z3", func(f string, t int) []string { return []string{"z3", fmt.Sprintf("-t:%d", t), f} }},
	{"cvc5", func(f string, t int) []string {
		return []string{"cvc5", fmt.Sprintf("--tlimit=%d", t), "--produce-models", f}
	}},
}

// procSem bounds the number of solver processes running at once (the timeout clock of a
// query starts only when it actually gets a CPU slot)
var procSem = make(chan struct{}, runtime.NumCPU())

func runSolver(ctx context.Context, sp solverSpec, file string, timeoutMs int) SolveResult {
	select {
	case procSem <- struct{}{}:
	case <-ctx.Done():
		return SolveResult{Solver: sp.name, Status: "timeout", File: file}
	}
	defer func() { <-procSem }()
	if ctx.Err() != nil {
		return SolveResult{Solver: sp.name, Status: "timeout", File: file}
	}
	t0 := time.Now()
	args := sp.args(file, timeoutMs)
	cctx, cancel := context.WithTimeout(ctx, time.Duration(timeoutMs+2000)*time.Millisecond)
	defer cancel()
	// `timeout -k` makes the solver process end by itself even if this process is killed first (a solver's own -t is unreliable)
	args = append([]string{"timeout", "-k", "2", strconv.Itoa(timeoutMs/1000 + 5)}, args...)
	cmd := exec.CommandContext(cctx, args[0], args[1:]...)
	cmd.SysProcAttr = &syscall.SysProcAttr{Setpgid: true}
	cmd.Cancel = func() error { return syscall.Kill(-cmd.Process.Pid, syscall.SIGKILL) } // the whole group: timeout + solver
	cmd.WaitDelay = 2 * time.Second
	var out bytes.Buffer
	cmd.Stdout = &out
	cmd.Stderr = &out
	cmd.Run()
	res := SolveResult{Solver: sp.name, Time: time.Since(t0).Seconds(), Output: out.String(), File: file}
	first := strings.TrimSpace(strings.SplitN(out.String(), "\n", 2)[0])
	switch first {
	case "sat", "unsat", "unknown":
		res.Status = first
	case "timeout":
		res.Status = "timeout"
	default:
		if cctx.Err() != nil {
			res.Status = "timeout"
		} else {
			res.Status = "error"
		}
	}
	return res
}

// race: first z3-new alone with a short budget, then all three with the full budget.
func raceSolvers(file string, timeoutMs int, which []string) SolveResult {
	pick := func(name string) bool {
		if len(which) == 0 {
			return true
		}
		for _, w := range which {
			if w == name {
				return true
			}
		}
		return false
	}
	quick := timeoutMs
	if quick > 2000 {
		quick = 2000
	}
	if pick("z3-new") {
		r := runSolver(context.Background(), solvers[0], file, quick)
		if r.Status == "sat" || r.Status == "unsat" {
			return r
		}
		if quick == timeoutMs && len(which) == 1 {
			return r
		}
	}
	ctx, cancel := context.WithCancel(context.Background())
	defer cancel()
	ch := make(chan SolveResult, len(solvers))
	n := 0
	for _, sp := range solvers {
		if !pick(sp.name) {
			continue
		}
		n++
		go func(sp solverSpec) { ch <- runSolver(ctx, sp, file, timeoutMs) }(sp)
	}
	var last SolveResult
	var errs []string
	for i := 0; i < n; i++ {
		r := <-ch
		if r.Status == "sat" || r.Status == "unsat" {
			return r
		}
		if r.Status == "error" {
			errs = append(errs, r.Solver+": "+firstLines(r.Output, 3))
		}
		if last.Status == "" || r.Status == "unknown" || r.Status == "timeout" {
			if !(last.Status == "timeout" || last.Status == "unknown") || r.Status != "error" {
				last = r
			}
		}
	}
	if last.Status == "error" {
		last.Output = strings.Join(errs, "\n")
	}
	if (last.Status == "unknown" || last.Status == "timeout") && pick("z3-new") {
		// last resort: other random seeds (solver heuristics are seed-sensitive on nonlinear goals)
		for _, seed := range []int{7, 23} {
			sp := solverSpec{"z3-new", func(f string, t int) []string {
				return []string{"z3-new", fmt.Sprintf("-t:%d", t), fmt.Sprintf("smt.random_seed=%d", seed), fmt.Sprintf("sat.random_seed=%d", seed), fmt.Sprintf("nlsat.seed=%d", seed), f}
			}}
			r := runSolver(context.Background(), sp, file, timeoutMs/2)
			if r.Status == "sat" || r.Status == "unsat" {
				r.Solver = fmt.Sprintf("z3-new(seed %d)", seed)
				return r
			}
		}
	}
	return last
}

func firstLines(s string, n int) string {
	ls := strings.Split(s, "\n")
	if len(ls) > n {
		ls = ls[:n]
	}
	return strings.Join(ls, " | ")
}

type OblResult struct {
	O   *Obligation
	R   SolveResult
	OK  bool
	Msg string
}

func solveAll(w *World, obls []*Obligation, dir string, timeoutMs int, par int) []*OblResult {
	os.MkdirAll(dir, 0o755)
	results := make([]*OblResult, len(obls))
	// SMT text generation touches shared registries: do it sequentially, run solvers in parallel
	for _, o := range obls {
		o.prepare(w)
	}
	var wg sync.WaitGroup
	sem := make(chan struct{}, par)
	for i, o := range obls {
		wg.Add(1)
		go func(i int, o *Obligation) {
			defer wg.Done()
			sem <- struct{}{}
			defer func() { <-sem }()
			results[i] = solveOne(w, o, dir, timeoutMs)
		}(i, o)
	}
	wg.Wait()
	return results
}

func oblFile(dir string, o *Obligation) string {
	return filepath.Join(dir, sanitizeFile(o.Name)+".smt2")
}

func sanitizeFile(s string) string {
	return strings.NewReplacer("/", "_", "#", "__", "*", "p", " ", "_").Replace(s)
}

func (o *Obligation) prepare(w *World) {
	defer func() {
		if r := recover(); r != nil {
			o.Static = fmt.Sprint("cannot generate SMT: ", r)
		}
	}()
	if o.Static != "" || (!o.Cover && o.Goal.isTrue()) || o.fullSMT != "" {
		return
	}
	var gv []*Term
	if !o.Cover {
		for _, in := range o.Inputs {
			gv = append(gv, flattenForModel(in.Term)...)
		}
	}
	o.fullSMT = o.smt(w, nil, gv, false)
	if !o.Cover && (strings.Contains(o.fullSMT, "(is_int_dom ") || strings.Contains(o.fullSMT, "(i2r ")) {
		o.weakSMT = o.smt(w, nil, nil, true)
	}
	if !o.Cover && (strings.Contains(o.fullSMT, "(* ") || strings.Contains(o.fullSMT, "(is_int ")) {
		o.ufSMT = o.smtMode(w, nil, nil, true, true)
	}
}

func solveOne(w *World, o *Obligation, dir string, timeoutMs int) *OblResult {
	res := &OblResult{O: o}
	if o.Static != "" {
		res.R = SolveResult{Status: "static-fail", Solver: "govc"}
		res.Msg = o.Static
		return res
	}
	if !o.Cover && o.Goal.isTrue() {
		res.OK = true
		res.R = SolveResult{Status: "unsat", Solver: "govc-trivial"}
		return res
	}
	file := oblFile(dir, o)
	if err := os.WriteFile(file, []byte(o.fullSMT), 0o644); err != nil {
		res.R = SolveResult{Status: "error", Output: err.Error()}
		return res
	}
	if o.Cover {
		res.R = raceSolvers(file, 3000, []string{"z3-new"})
		res.OK = res.R.Status != "unsat"
		if !res.OK {
			res.Msg = "VACUOUS: path/precondition unsatisfiable"
		}
		return res
	}
	t0 := time.Now()
	type variant struct {
		file  string
		sp    solverSpec
		label string
		full  bool // a sat answer is meaningful only for the unabstracted text
	}
	var ufile, wfile string
	if o.ufSMT != "" {
		ufile = strings.TrimSuffix(file, ".smt2") + ".ufmul.smt2"
		os.WriteFile(ufile, []byte(o.ufSMT), 0o644)
	}
	if o.weakSMT != "" {
		wfile = strings.TrimSuffix(file, ".smt2") + ".noint.smt2"
		os.WriteFile(wfile, []byte(o.weakSMT), 0o644)
	}
	// stage 1: cheap attempts
	hasQuant := strings.Contains(o.fullSMT, "(forall ")
	var firsts []variant
	if ufile != "" {
		firsts = append(firsts, variant{ufile, solvers[0], "z3-new(uf-products)", false})
	} else {
		firsts = append(firsts, variant{file, solvers[0], "z3-new", true})
	}
	if hasQuant {
		if ufile != "" {
			firsts = append(firsts, variant{ufile, z3ematch, "z3-new(ematch,uf-products)", false})
		} else {
			firsts = append(firsts, variant{file, z3ematch, "z3-new(ematch)", false})
		}
	}
	{
		first := firsts[0]
		r := runSolver(context.Background(), first.sp, first.file, min(timeoutMs, 1500))
		if r.Status == "unsat" || (r.Status == "sat" && first.full) {
			r.Solver = first.label
			r.Time = time.Since(t0).Seconds()
			res.R = r
			res.OK = r.Status == "unsat"
			return res
		}
	}
	if len(firsts) > 1 {
		// stage 1b (quantified goals): E-matching-only z3 and cvc5 side by side; many goals that z3's MBQI loses are
		// decided by one of them within a fraction of a second
		seconds := []variant{firsts[1]}
		if ufile != "" {
			seconds = append(seconds, variant{ufile, solvers[2], "cvc5(uf-products)", false})
			seconds = append(seconds, variant{ufile, z3oldEmatch, "z3(ematch,uf-products)", false})
		} else {
			seconds = append(seconds, variant{file, solvers[2], "cvc5", false})
			seconds = append(seconds, variant{file, z3oldEmatch, "z3(ematch)", false})
		}
		ctx1, cancel1 := context.WithCancel(context.Background())
		ch1 := make(chan SolveResult, len(seconds))
		for _, v := range seconds {
			go func(v variant) {
				r := runSolver(ctx1, v.sp, v.file, min(timeoutMs, 4000))
				r.Solver = v.label
				ch1 <- r
			}(v)
		}
		for range seconds {
			r := <-ch1
			if r.Status == "unsat" {
				cancel1()
				r.Time = time.Since(t0).Seconds()
				res.R = r
				res.OK = true
				return res
			}
		}
		cancel1()
	}
	// stage 2: everything else in parallel; first definite answer wins
	vs := []variant{{file, solvers[0], "z3-new", true}, {file, solvers[2], "cvc5", true}, {file, solvers[1], "z3", true}}
	if wfile != "" {
		vs = append(vs, variant{wfile, solvers[0], "z3-new(no-integrality)", false})
	}
	if ufile != "" {
		vs = append(vs, variant{ufile, solvers[2], "cvc5(uf-products)", false})
	}
	if hasQuant {
		vs = append(vs, variant{file, z3ematch, "z3-new(ematch)", false})
		vs = append(vs, variant{file, z3oldEmatch, "z3(ematch)", false})
		if ufile != "" {
			vs = append(vs, variant{ufile, z3ematch, "z3-new(ematch,uf-products)", false})
		}
	}
	ctx, cancel := context.WithCancel(context.Background())
	defer cancel()
	ch := make(chan SolveResult, len(vs))
	for _, v := range vs {
		go func(v variant) {
			r := runSolver(ctx, v.sp, v.file, timeoutMs)
			r.Solver = v.label
			if !v.full && r.Status == "sat" {
				r.Status = "unknown"
			}
			if !v.full && r.Status != "unsat" {
				r.File = ""
			}
			ch <- r
		}(v)
	}
	var last SolveResult
	var errs []string
	for range vs {
		r := <-ch
		if r.Status == "sat" || r.Status == "unsat" {
			r.Time = time.Since(t0).Seconds()
			res.R = r
			res.OK = r.Status == "unsat"
			return res
		}
		if r.File == "" {
			continue
		}
		if r.Status == "error" {
			errs = append(errs, r.Solver+": "+firstLines(r.Output, 3))
		}
		if last.Status == "" || last.Status == "error" || r.Status != "error" {
			last = r
		}
	}
	if last.Status == "error" {
		last.Output = strings.Join(errs, "\n")
	}
	if last.Status == "unknown" || last.Status == "timeout" {
		for _, seed := range []int{7, 23} {
			seed := seed
			sp := solverSpec{"z3-new", func(f string, t int) []string {
				return []string{"z3-new", fmt.Sprintf("-t:%d", t), fmt.Sprintf("smt.random_seed=%d", seed), fmt.Sprintf("sat.random_seed=%d", seed), fmt.Sprintf("nlsat.seed=%d", seed), f}
			}}
			r := runSolver(context.Background(), sp, file, timeoutMs/2)
			if r.Status == "sat" || r.Status == "unsat" {
				r.Solver = fmt.Sprintf("z3-new(seed %d)", seed)
				r.Time = time.Since(t0).Seconds()
				res.R = r
				res.OK = r.Status == "unsat"
				return res
			}
		}
	}
	last.Time = time.Since(t0).Seconds()
	last.File = file
	res.R = last
	res.OK = false
	return res
}

// flattenForModel returns scalar terms whose values describe t.
func flattenForModel(t *Term) []*Term {
	switch t.S.Kind {
	case KBool, KInt, KReal:
		return []*Term{t}
	case KDT:
		if t.S.IsSlice {
			out := []*Term{tField(t, "len")}
			for k := 0; k < 8; k++ {
				el := tSelect(tField(t, "arr"), mk("+", SInt, tField(t, "off"), intLit(int64(k))))
				out = append(out, flattenForModel(el)...)
			}
			return out
		}
		var out []*Term
		for _, f := range t.S.Fields {
			out = append(out, flattenForModel(tField(t, f.Name))...)
		}
		return out
	}
	return nil
}

func sortResults(rs []*OblResult) {
	sort.SliceStable(rs, func(i, j int) bool { return rs[i].O.Name < rs[j].O.Name })
}
