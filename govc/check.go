package main

import (
	"bufio"
	"context"
	"encoding/json"
	"flag"
	"fmt"
	"os"
	"os/exec"
	"path/filepath"
	"sort"
	"strconv"
	"strings"
	"sync"
	"time"
)

type KnownFinding struct {
	Kind       string // known | fixed
	Property   string
	Obligation string
	Witness    string // JSON list of leaf values
	Test       string // path (relative to /verif) of a Go test file replayed on the real code: the finding stands while it prints STILL-FAILS
	Text       string
	Line       string
}

func loadKnownFindings(path string) []KnownFinding {
	f, err := os.Open(path)
	if err != nil {
		return nil
	}
	defer f.Close()
	var out []KnownFinding
	sc := bufio.NewScanner(f)
	sc.Buffer(make([]byte, 1<<20), 1<<20)
	for sc.Scan() {
		l := strings.TrimSpace(sc.Text())
		if l == "" || strings.HasPrefix(l, "#") {
			continue
		}
		kf := KnownFinding{Line: l}
		switch {
		case strings.HasPrefix(l, "known:"):
			kf.Kind = "known"
			l = strings.TrimSpace(strings.TrimPrefix(l, "known:"))
		case strings.HasPrefix(l, "fixed:"):
			kf.Kind = "fixed"
			l = strings.TrimSpace(strings.TrimPrefix(l, "fixed:"))
		default:
			continue
		}
		for {
			l = strings.TrimSpace(l)
			if strings.HasPrefix(l, "property=") || strings.HasPrefix(l, "obligation=") || strings.HasPrefix(l, "witness=") || strings.HasPrefix(l, "test=") || strings.HasPrefix(l, "bounded=") {
				i := strings.IndexByte(l, ' ')
				tokv := l
				if i >= 0 {
					tokv = l[:i]
				}
				kv := strings.SplitN(tokv, "=", 2)
				switch kv[0] {
				case "property":
					kf.Property = kv[1]
				case "obligation":
					kf.Obligation = kv[1]
				case "witness":
					kf.Witness = kv[1]
				case "test":
					kf.Test = kv[1]
				}
				if i < 0 {
					l = ""
					break
				}
				l = l[i+1:]
				continue
			}
			break
		}
		kf.Text = l
		out = append(out, kf)
	}
	return out
}

type Evidence struct {
	PropertyID  string                 `json:"property_id"`
	Tier        string                 `json:"tier"`
	Seed        int                    `json:"seed"`
	Level       string                 `json:"level"`
	Coverage    map[string]interface{} `json:"coverage"`
	Assumptions []string               `json:"assumptions"`
	WallS       float64                `json:"wall_s"`
	Violations  int                    `json:"violations"`
}

var assumptionText = map[string]string{
	"A-FLOAT":  "A-FLOAT: on integer inputs |v|<=2^20 binary64 + - * are exact while |result|<2^53 (range obligations generated and proved)",
	"A-DIV":    "A-DIV: comparisons of correctly rounded quotients of in-domain integers agree with comparisons of the exact quotients; m*fl(1/n) compares with 0 and 1 as m/n does",
	"A-NUDGE":  "A-NUDGE: math.Nextafter(y,+Inf) for integer |y|<=2^20 is y+eps with 0<eps<=2^-32, consumers evaluated on y+eps",
	"A-SCALE":  "A-SCALE: dyadic inputs m*2^-k behave as the integer inputs m (exact power-of-two scaling)",
	"A-ORDER":  "A-ORDER: order mode: float comparisons form a total order, arithmetic is an uninterpreted deterministic function; NaN excluded",
	"A-GO":     "A-GO: Go semantics as implemented by the generator (evaluation order, value semantics, append, no aliasing of fresh slices); int arithmetic on lengths/indices does not overflow int64",
	"A-SOLVER": "A-SOLVER: an unsat answer from z3 4.8.12 / z3 5.1.0 / cvc5 1.0.3 is correct",
	"A-GOVC":   "A-GOVC: the VC generator itself (tested by the must-fail corpus /verif/selftest)",
	"A-BINARY": "A-BINARY: encoding/binary little-endian readers return the little-endian value of the bytes and touch nothing else; math.Float64frombits/bits are inverse bijections",
	"A-HEAP":   "A-HEAP: query functions see an immutable heap (no stores; enforced by the subset: a heap store makes the function out-of-subset)",
}

func cmdCheck(args []string) {
	if len(args) < 1 {
		fmt.Fprintln(os.Stderr, "usage: govc check <PROP> [--tier quick|thorough]")
		os.Exit(2)
	}
	prop := args[0]
	fs := flag.NewFlagSet("check", flag.ExitOnError)
	repo := fs.String("repo", "/repo", "repository")
	tier := fs.String("tier", envOr("VERIF_TIER", "quick"), "quick|thorough")
	verif := fs.String("verif", "/verif", "verif dir")
	frame := fs.Bool("frame", false, "also run the go/ssa frame checker (govframe) for this property and merge its obligations into the evidence")
	bounded := fs.String("bounded", "", "comma separated govrac suites run as the bounded stand-in for the functions left trusted (reported as bounded, never as proved)")
	fs.Parse(args[1:])
	boundedSuites = nil
	for _, b := range strings.Split(*bounded, ",") {
		if b = strings.TrimSpace(b); b != "" {
			boundedSuites = append(boundedSuites, b)
		}
	}
	withFrame = *frame
	os.Exit(runCheck(prop, *repo, *verif, *tier))
}

var withFrame bool

// runFrame runs govframe for the property; its evidence file (same path) is read back and removed so that this check's
// evidence can embed it.
func runFrame(prop, repo, verif, tier string) (viol []string, knownL []string, cov map[string]interface{}, assumptions []string, broken string) {
	cmd := exec.Command(filepath.Join(verif, "bin", "govframe"), "check", prop, "--tier", tier, "--repo", repo, "--verif", verif)
	cmd.Env = append(os.Environ(), "GOFLAGS=-mod=mod", "GOPROXY=off", "GOSUMDB=off", "GOTOOLCHAIN=local")
	out, err := cmd.CombinedOutput()
	code := 0
	if err != nil {
		code = 1
		if ee, ok := err.(*exec.ExitError); ok {
			code = ee.ExitCode()
		}
	}
	if code >= 2 {
		broken = fmt.Sprintf("govframe check %s failed (exit %d): %s", prop, code, firstLines(string(out), 12))
		return
	}
	for _, l := range strings.Split(string(out), "\n") {
		switch {
		case strings.HasPrefix(l, "VIOLATION property="+prop+" "):
			viol = append(viol, l)
		case strings.HasPrefix(l, "KNOWN-FINDING: property="+prop+" "):
			knownL = append(knownL, l)
		case strings.HasPrefix(l, "govframe "):
			fmt.Println("  " + l)
		}
	}
	var ev struct {
		Coverage    map[string]interface{} `json:"coverage"`
		Assumptions []string               `json:"assumptions"`
	}
	if b, err := os.ReadFile(filepath.Join(verif, "evidence", prop+".json")); err == nil {
		json.Unmarshal(b, &ev)
	}
	return viol, knownL, ev.Coverage, ev.Assumptions, ""
}

var boundedSuites []string

// runBounded runs the govrac suites (bounded run-time checking of the functions whose contracts are trusted leaves) and
// returns VIOLATION / KNOWN-FINDING lines of checks that serve this property plus a summary for the evidence file.
func runBounded(prop, repo, verif, tier string, seed int) (viol []string, knownL []string, summary []map[string]interface{}, broken string) {
	for _, suite := range boundedSuites {
		t0 := time.Now()
		args := []string{"run", suite, "--repo", repo, "--verif", verif, "--tier", tier}
		if seed != 0 {
			args = append(args, "--seed", strconv.Itoa(seed))
		}
		cmd := exec.Command(filepath.Join(verif, "bin", "govrac"), args...)
		cmd.Env = append(os.Environ(), "GOFLAGS=-mod=mod", "GOPROXY=off", "GOSUMDB=off", "GOTOOLCHAIN=local")
		out, err := cmd.CombinedOutput()
		code := 0
		if err != nil {
			code = 1
			if ee, ok := err.(*exec.ExitError); ok {
				code = ee.ExitCode()
			}
		}
		if code >= 2 {
			broken = fmt.Sprintf("govrac run %s failed (exit %d): %s", suite, code, firstLines(string(out), 12))
			return
		}
		// which functions of the suite serve this property
		serves := map[string]bool{}
		var bev struct {
			Checks []map[string]interface{} `json:"checks"`
		}
		if b, err := os.ReadFile(filepath.Join(verif, "evidence", "bounded", suite+".json")); err == nil {
			json.Unmarshal(b, &bev)
		}
		for _, c := range bev.Checks {
			fn, _ := c["function"].(string)
			ids, _ := c["property_ids"].([]interface{})
			for _, id := range ids {
				if id == prop {
					serves[fn] = true
				}
			}
			if serves[fn] {
				summary = append(summary, map[string]interface{}{"suite": suite, "function": fn, "kind": c["kind"], "domain": c["domain"], "cases": c["cases"], "exhaustive": c["exhaustive"], "failures": c["failures"], "known_failures": c["known_failures"], "hangs": c["hangs"], "panics": c["panics"]})
			}
		}
		for _, l := range strings.Split(string(out), "\n") {
			switch {
			case strings.HasPrefix(l, "BOUNDED-FAILURE "):
				fn, rp := "", ""
				for _, f := range strings.Fields(l) {
					if strings.HasPrefix(f, "function=") {
						fn = strings.TrimPrefix(f, "function=")
					}
					if strings.HasPrefix(f, "replay=") {
						rp = strings.TrimPrefix(f, "replay=")
					}
				}
				if serves[fn] {
					fmt.Println("  " + l)
					v := fmt.Sprintf("VIOLATION property=%s replay=%s", prop, rp)
					if strings.HasSuffix(strings.TrimSpace(l), "no-failing-input-found") {
						v += " no-failing-input-found"
					}
					viol = append(viol, v)
				}
			case strings.HasPrefix(l, "KNOWN-FINDING: property="+prop+" "):
				knownL = append(knownL, l)
			}
		}
		fmt.Printf("  bounded stand-in %s: %d check(s) serving %s, %.1fs\n", suite, len(serves), prop, time.Since(t0).Seconds())
	}
	return
}

var verifRoot = "/verif"

func verifDir() string { return verifRoot }

func runCheck(prop, repo, verif, tier string) int {
	verifRoot = verif
	t0 := time.Now()
	seed, _ := strconv.Atoi(os.Getenv("VERIF_SEED"))
	timeout := 45000
	if tier == "thorough" {
		timeout = 180000
	}
	evPath := filepath.Join(verif, "evidence", prop+".json")
	os.Remove(evPath)
	w, err := loadWorld(repo)
	if err != nil {
		fmt.Println("ENGINE-ERROR load:", err)
		return 2
	}
	for _, e := range w.CS.LoadErrors {
		fmt.Println("ENGINE-ERROR contract file does not load:", e)
	}
	if len(w.CS.LoadErrors) > 0 {
		return 2
	}
	var keys, lemmas []string
	for _, k := range w.CS.funcKeys() {
		if hasProp(w.CS.Funcs[k].Props, prop) {
			keys = append(keys, k)
		}
	}
	for _, ln := range w.CS.Order {
		if hasProp(w.CS.Lemmas[ln].Props, prop) {
			lemmas = append(lemmas, ln)
		}
	}
	if len(keys)+len(lemmas) == 0 {
		fmt.Println("ENGINE-ERROR no contracts tagged", prop)
		return 2
	}
	smtDir := filepath.Join(verif, "tmp", "smt-"+prop)
	os.RemoveAll(smtDir)
	reps := verifyKeys(w, keys, lemmas, smtDir, timeout, 16, false, prop)
	known := loadKnownFindings(filepath.Join(verif, "KNOWN_FINDINGS.txt"))
	replayDir := filepath.Join(verif, "replays", prop)
	os.RemoveAll(replayDir)
	var cross map[string]interface{}
	var crossBad []string
	if tier == "thorough" {
		cross, crossBad = crossCheck(reps)
	}

	nObl, nOK := 0, 0
	byBackend := map[string]int{}
	solverTime := 0.0
	var samples []interface{}
	var violations []string
	var knownLines []string
	var funcsUnder, unverified, assumedContracts, notes []string
	covers, coversSat := 0, 0
	exitCode := 0
	trusted := map[string]bool{"A-SOLVER": true, "A-GOVC": true, "A-GO": true}
	knownOblSeen := map[string]bool{}
	var deadNotes []string
	var partial []string
	for _, r := range reps {
		fc := w.CS.Funcs[r.Key]
		if fc != nil && fc.Trusted {
			assumedContracts = append(assumedContracts, r.Key+" (trusted: "+fc.TrustWhy+")")
			continue
		}
		if r.Err != nil {
			// function left the verifiable subset or its contract is stale
			unverified = append(unverified, r.Key+": "+r.Err.Error())
			rf := &ReplayFile{Property: prop, Obligation: r.Key + "#generate", Function: r.Key, Verdict: "no-model", Detail: "obligations could not be generated from the current source: " + r.Err.Error()}
			p := writeReplayFile(replayDir, rf)
			violations = append(violations, fmt.Sprintf("VIOLATION property=%s replay=%s no-failing-input-found", prop, p))
			continue
		}
		if r.Key == "behavioural-subtyping" {
			funcsUnder = append(funcsUnder, r.Notes...)
		} else {
			funcsUnder = append(funcsUnder, r.Key)
		}
		if r.Ex != nil {
			for k := range r.Ex.assumedCalls {
				assumedContracts = append(assumedContracts, k)
			}
			if r.Ex.arith == "exact" {
				trusted["A-FLOAT"] = true
				trusted["A-SCALE"] = true
			} else if r.Ex.arith == "order" {
				trusted["A-ORDER"] = true
			}
			for _, sp := range r.Ex.skippedPaths {
				partial = append(partial, r.Key+": path not verified at "+sp)
			}
			if r.Ex.skipped > 0 {
				partial = append(partial, fmt.Sprintf("%s: only %s obligations are generated (%d others not covered)", r.Key, strings.Join(fc.Only, ","), r.Ex.skipped))
			}
			for _, n := range r.Ex.notes {
				if strings.Contains(n, "A-DIV") {
					trusted["A-DIV"] = true
				}
				if strings.Contains(n, "A-NUDGE") {
					trusted["A-NUDGE"] = true
				}
				notes = append(notes, r.Key+": "+n)
			}
		}
		for _, x := range r.Results {
			if x.O.Cover {
				covers++
				if x.R.Status == "sat" {
					coversSat++
				}
				if !x.OK {
					if strings.HasSuffix(x.O.Name, "cover.pre") {
						fmt.Println("ENGINE-ERROR vacuous precondition:", x.O.Name)
						exitCode = 2
					} else if expectedDead(fc, x.O.Name) {
						deadNotes = append(deadNotes, x.O.Name)
					} else {
						// a program point that was reachable is now dead: the obligations behind it hold vacuously
						rf := &ReplayFile{Property: prop, Obligation: x.O.Name, Function: x.O.Func, Source: x.O.Src, Solver: x.R.Solver, Status: x.R.Status, Verdict: "no-model", Detail: "vacuity guard: this program point is unreachable under the contract's precondition (not declared dead in the contract)", SMTFile: x.R.File}
						p := writeReplayFile(replayDir, rf)
						violations = append(violations, fmt.Sprintf("VIOLATION property=%s replay=%s no-failing-input-found", prop, p))
						fmt.Printf("  vacuous path %s: %s\n", x.O.Name, x.O.Src)
					}
				}
				continue
			}
			if len(x.O.Props) > 0 && !hasProp(x.O.Props, prop) {
				continue // a clause labelled for other properties only
			}
			nObl++
			solverTime += x.R.Time
			if x.OK {
				nOK++
				byBackend[x.R.Solver]++
				if len(samples) < 6 {
					samples = append(samples, map[string]interface{}{"obligation": x.O.Name, "kind": x.O.Kind, "status": x.R.Status, "backend": x.R.Solver, "time_s": round3(x.R.Time), "what": x.O.Src})
				}
				continue
			}
			// failed obligation
			kf := matchKnown(known, prop, x.O.Name)
			if kf != nil {
				ok, detail := w.recheckKnown(kf, x)
				if ok {
					knownOblSeen[x.O.Name] = true
					knownLines = append(knownLines, fmt.Sprintf("KNOWN-FINDING: property=%s %s %s [%s]", prop, x.O.Name, kf.Text, detail))
					nObl-- // known findings are not counted as obligations of the claim
					continue
				}
			}
			out := w.replay(x, prop)
			if !out.Confirmed && (x.R.Status == "unknown" || x.R.Status == "timeout" || out.Verdict == "not-confirmed") {
				// bounded counterexample search on a small domain
				if x2 := w.smallDomainSearch(x, smtDir); x2 != nil {
					out2 := w.replay(x2, prop)
					if out2.Confirmed {
						out = out2
					}
				}
			}
			p := writeReplayFile(replayDir, &out.File)
			if out.Confirmed {
				violations = append(violations, fmt.Sprintf("VIOLATION property=%s replay=%s", prop, p))
				fmt.Printf("  failed obligation %s [%s by %s]: %s\n    %s\n", x.O.Name, x.R.Status, x.R.Solver, x.O.Src, out.Detail)
			} else {
				violations = append(violations, fmt.Sprintf("VIOLATION property=%s replay=%s no-failing-input-found", prop, p))
				fmt.Printf("  failed obligation %s [%s by %s]: %s\n    %s\n", x.O.Name, x.R.Status, x.R.Solver, x.O.Src, out.Detail)
			}
		}
	}
	sort.Strings(funcsUnder)
	sort.Strings(assumedContracts)
	for _, l := range knownLines {
		fmt.Println(l)
	}
	var frameCov map[string]interface{}
	var frameAssumptions []string
	if withFrame {
		fv, fk, fc, fa, broken := runFrame(prop, repo, verif, tier)
		if broken != "" {
			fmt.Println("ENGINE-ERROR", broken)
			exitCode = 2
		}
		violations = append(violations, fv...)
		for _, l := range fk {
			fmt.Println(l)
		}
		knownLines = append(knownLines, fk...)
		frameCov, frameAssumptions = fc, fa
	}
	var boundedSummary []map[string]interface{}
	if len(boundedSuites) > 0 {
		bv, bk, bs, broken := runBounded(prop, repo, verif, tier, seed)
		if broken != "" {
			fmt.Println("ENGINE-ERROR", broken)
			exitCode = 2
		}
		violations = append(violations, bv...)
		for _, l := range bk {
			fmt.Println(l)
		}
		knownLines = append(knownLines, bk...)
		boundedSummary = bs
	}
	for _, b := range crossBad {
		fmt.Println("ENGINE-ERROR solvers disagree on the same query:", b)
		exitCode = 2
	}
	for _, v := range violations {
		fmt.Println(v)
	}
	if nObl == 0 {
		fmt.Println("ENGINE-ERROR zero obligations generated for", prop)
		exitCode = 2
	}
	var tb []string
	for k := range trusted {
		tb = append(tb, assumptionText[k])
	}
	sort.Strings(tb)
	for _, t := range w.trustedScan() {
		tb = append(tb, t)
	}
	ev := Evidence{PropertyID: prop, Tier: tier, Seed: seed, Level: "proof", WallS: round3(time.Since(t0).Seconds()), Violations: len(violations)}
	ev.Assumptions = tb
	ev.Coverage = map[string]interface{}{
		"obligations":                 nObl,
		"discharged":                  nOK,
		"checker_cmd":                 fmt.Sprintf("/verif/bin/govc check %s --tier %s  (VCs from %s working tree; z3-new 5.1.0 / z3 4.8.12 / cvc5 1.0.3 raced, %d ms per obligation)", prop, tier, repo, timeout),
		"trusted_base":                tb,
		"samples":                     samples,
		"functions_under_contract":    funcsUnder,
		"lemmas":                      lemmas,
		"by_backend":                  byBackend,
		"solver_time_s":               round3(solverTime),
		"assumed_contracts":           dedup(assumedContracts),
		"unverified_functions":        unverified,
		"partially_covered_functions": partial,
		"known_finding_obligations":   sortedBoolKeys(knownOblSeen),
		"vacuity":                     map[string]interface{}{"covers": covers, "sat": coversSat, "declared_dead": deadNotes},
		"modelling_notes":             dedup(notes),
		"translation_drops":           translationDrops,
		"explanation":                 "every obligation is generated on this run from the function bodies in the working tree plus the //@ contracts in *_verif.go; a caller sees only its callee's contract",
	}
	if len(boundedSuites) > 0 {
		ev.Coverage["bounded_stand_in"] = map[string]interface{}{
			"label":  "BOUNDED, not proved: run-time checking of the real functions against an exact-rational planar oracle over enumerated small domains (govrac); stands in for the functions whose contracts are trusted leaves of the proof",
			"suites": boundedSuites,
			"checks": boundedSummary,
		}
		ev.Assumptions = append(ev.Assumptions, "A-ORACLE: the hand-written exact-rational planar oracle of /verif/govrac (validated by its own unit tests) defines the expected answers of the bounded stand-in")
	}
	if cross != nil {
		ev.Coverage["second_solver_cross_check"] = cross
	}
	if frameCov != nil {
		// frame obligations (one per store / call site, discharged by the go/ssa frame checker) are counted with the SMT obligations
		fo, _ := frameCov["obligations"].(float64)
		fd, _ := frameCov["discharged"].(float64)
		ev.Coverage["smt_obligations"] = nObl
		ev.Coverage["smt_discharged"] = nOK
		ev.Coverage["obligations"] = nObl + int(fo)
		ev.Coverage["discharged"] = nOK + int(fd)
		ev.Coverage["frame_checker"] = frameCov
		ev.Assumptions = append(ev.Assumptions, frameAssumptions...)
	}
	extraEvidence(w, prop, tier, ev.Coverage)
	os.MkdirAll(filepath.Dir(evPath), 0o755)
	b, _ := json.MarshalIndent(ev, "", " ")
	os.WriteFile(evPath, b, 0o644)
	fmt.Printf("%s: %d/%d obligations discharged, %d known finding(s), %d violation(s), %.1fs\n", prop, nOK, nObl, len(knownLines), len(violations), time.Since(t0).Seconds())
	if exitCode != 0 {
		return exitCode
	}
	if len(violations) > 0 {
		return 1
	}
	return 0
}

var translationDrops = []string{
	"binary64 rounding: replaced by the arithmetic model named per function (exact | order | abstract)",
	"heap: query functions read an immutable heap (field arrays indexed by reference); a heap store puts a function out of subset",
	"panics: not control flow; every potentially panicking operation is a safety obligation",
	"goroutines, channels, select, defer, recover, unsafe, reflection: out of subset",
	"calls into dependencies: replaced by the assumed contracts listed in trusted_base",
}

// extraEvidence: the contract status of EVERY function of the module with a body (so that "functions under contract" can be read
// against what is not under contract at all).
func extraEvidence(w *World, prop, tier string, cov map[string]interface{}) {
	counts := map[string]int{}
	var none, trustedFns, partial []string
	for k, fi := range w.Funcs {
		if fi.Decl == nil || fi.Decl.Body == nil {
			continue
		}
		st := "without_contract"
		if fc := w.CS.Funcs[k]; fc != nil {
			switch {
			case fc.Trusted:
				st = "trusted_contract"
				trustedFns = append(trustedFns, k)
			case len(fc.Only) > 0:
				st = "partially_discharged_contract"
				partial = append(partial, k)
			default:
				st = "fully_discharged_contract"
			}
		} else {
			none = append(none, k)
		}
		counts[st]++
	}
	sort.Strings(none)
	sort.Strings(trustedFns)
	sort.Strings(partial)
	cov["module_functions"] = map[string]interface{}{
		"counts":                        counts,
		"without_contract":              none,
		"trusted_contract":              trustedFns,
		"partially_discharged_contract": partial,
		"note":                          "whole module (geojson, geometry, geo), all properties together; this check discharges the subset tagged with its property",
	}
}

func expectedDead(fc *FuncContract, name string) bool {
	if fc == nil {
		return false
	}
	for _, d := range fc.Dead {
		if strings.HasSuffix(name, "#"+d) || strings.HasSuffix(name, d) {
			return true
		}
	}
	return false
}

func round3(f float64) float64 { return float64(int(f*1000+0.5)) / 1000 }

func hasProp(ps []string, p string) bool {
	for _, x := range ps {
		if x == p {
			return true
		}
	}
	return false
}

func dedup(xs []string) []string {
	seen := map[string]bool{}
	out := []string{}
	for _, x := range xs {
		if !seen[x] {
			seen[x] = true
			out = append(out, x)
		}
	}
	sort.Strings(out)
	return out
}

func sortedBoolKeys(m map[string]bool) []string {
	out := []string{}
	for k := range m {
		out = append(out, k)
	}
	sort.Strings(out)
	return out
}

func matchKnown(known []KnownFinding, prop, obl string) *KnownFinding {
	for i := range known {
		k := &known[i]
		if k.Kind == "known" && k.Property == prop && k.Obligation == obl {
			return k
		}
	}
	return nil
}

// recheckKnown re-runs the recorded witness against the real code: the finding is "known"
// only while that very input still fails.
func (w *World) recheckKnown(kf *KnownFinding, x *OblResult) (bool, string) {
	if kf.Test != "" {
		return w.runKnownTest(kf)
	}
	if kf.Witness == "" {
		return true, "no witness recorded; matched by obligation name"
	}
	var leaves []json.Number
	dec := json.NewDecoder(strings.NewReader(kf.Witness))
	dec.UseNumber()
	if err := dec.Decode(&leaves); err != nil {
		return false, "bad witness"
	}
	var vals []*sx
	for _, l := range leaves {
		s := l.String()
		if strings.HasPrefix(s, "-") {
			vals = append(vals, &sx{list: []*sx{{atom: "-"}, {atom: s[1:]}}})
		} else {
			vals = append(vals, &sx{atom: s})
		}
	}
	fi := w.Funcs[x.O.Func]
	fc := w.CS.Funcs[x.O.Func]
	if fi == nil || fc == nil {
		return false, "function missing"
	}
	pos := 0
	inputs := map[string]*CVal{}
	for _, in := range x.O.Inputs {
		inputs[in.Name] = buildCVal(in.Term.S, vals, &pos)
	}
	oc := w.runReal(fi, fc, x.O.Inputs, inputs)
	if oc.err != "" {
		return false, oc.err
	}
	if oc.panicked != "" || oc.hung {
		return true, "witness replayed: still fails (panic/hang)"
	}
	v := w.checkEnsuresConcrete(fi, fc, x.O.Inputs, inputs, oc.results)
	if len(v) > 0 {
		return true, "witness replayed on the real code: still violates " + strings.Join(v, "; ")
	}
	return false, "witness no longer fails"
}

// smallDomainSearch re-solves a failed obligation with every input leaf restricted to a small
// range; a model found there also satisfies the original constraints.
func (w *World) smallDomainSearch(x *OblResult, dir string) *OblResult {
	o := x.O
	if o.ex == nil {
		return nil
	}
	var gv []*Term
	for _, in := range o.Inputs {
		gv = append(gv, flattenForModel(in.Term)...)
	}
	for _, bound := range []int64{4, 16, 256} {
		var extra []*Term
		for i := range o.ex.decls[:o.NDecl] {
			d := &o.ex.decls[i]
			if d.Dom {
				c := cnst(d.Name, SInt)
				extra = append(extra, tAnd(mk("<=", SBool, intLit(-bound), c), mk("<=", SBool, c, intLit(bound))))
			}
		}
		if len(extra) == 0 {
			return nil
		}
		file := strings.TrimSuffix(oblFile(dir, o), ".smt2") + fmt.Sprintf(".small%d.smt2", bound)
		os.WriteFile(file, []byte(o.smt(w, extra, gv, false)), 0o644)
		r := raceSolvers(file, 8000, nil)
		if r.Status == "sat" {
			r.Solver += fmt.Sprintf("(small-domain %d)", bound)
			return &OblResult{O: o, R: r}
		}
	}
	return nil
}

func (w *World) trustedScan() []string {
	var out []string
	for _, k := range w.CS.Order {
		lm := w.CS.Lemmas[k]
		if lm.Axiom {
			out = append(out, "axiom "+lm.Pkg+"."+lm.Name+" (assumed, not proved)")
		}
	}
	for _, k := range w.CS.funcKeys() {
		fc := w.CS.Funcs[k]
		if fc.Trusted {
			out = append(out, "trusted contract "+k+": "+fc.TrustWhy)
		}
	}
	sort.Strings(out)
	return out
}

func cmdReplay(args []string) {
	if len(args) < 1 {
		fmt.Fprintln(os.Stderr, "usage: govc replay <path>")
		os.Exit(2)
	}
	b, err := os.ReadFile(args[0])
	if err != nil {
		fmt.Fprintln(os.Stderr, err)
		os.Exit(2)
	}
	var rf ReplayFile
	json.Unmarshal(b, &rf)
	fmt.Printf("obligation: %s\nfunction:   %s\nsource:     %s\nverdict:    %s\ndetail:     %s\n", rf.Obligation, rf.Function, rf.Source, rf.Verdict, rf.Detail)
	if rf.GoTest == "" {
		fmt.Println("no executable replay recorded (", rf.Status, ")")
		return
	}
	w, err := loadWorld("/repo")
	if err != nil {
		fmt.Fprintln(os.Stderr, err)
		os.Exit(2)
	}
	fi := w.Funcs[rf.Function]
	if fi == nil {
		fmt.Println("function not found in working tree")
		os.Exit(1)
	}
	fmt.Println("--- go test (overlay) ---")
	fmt.Println(rf.GoTest)
	fmt.Println("inputs:", rf.Inputs)
	fmt.Println("observed at record time:", rf.Observed)
	fmt.Println("violated clauses:", rf.Violated)
}

var knownTestCache = map[string][2]string{}

// runKnownTest injects the recorded test file into the package it names (first line: "// package-dir: <dir relative to the repo>")
// with -overlay and runs it against the working tree. The test prints STILL-FAILS while the recorded input still shows the defect.
func (w *World) runKnownTest(kf *KnownFinding) (bool, string) {
	if c, ok := knownTestCache[kf.Test]; ok {
		return c[0] == "1", c[1]
	}
	res := func(ok bool, d string) (bool, string) {
		b := "0"
		if ok {
			b = "1"
		}
		knownTestCache[kf.Test] = [2]string{b, d}
		return ok, d
	}
	src := filepath.Join(verifDir(), kf.Test)
	b, err := os.ReadFile(src)
	if err != nil {
		return res(false, "known-finding test missing: "+err.Error())
	}
	dir := "."
	first := strings.SplitN(string(b), "\n", 2)[0]
	if strings.HasPrefix(first, "// package-dir:") {
		dir = strings.TrimSpace(strings.TrimPrefix(first, "// package-dir:"))
	}
	tmp, err := os.MkdirTemp("", "govc-known-")
	if err != nil {
		return res(false, err.Error())
	}
	defer os.RemoveAll(tmp)
	tf := filepath.Join(tmp, "zz_known_finding_test.go")
	os.WriteFile(tf, b, 0o644)
	target := filepath.Join(w.RepoDir, dir, "zz_known_finding_test.go")
	ov, _ := json.Marshal(map[string]map[string]string{"Replace": {target: tf}})
	ovf := filepath.Join(tmp, "ov.json")
	os.WriteFile(ovf, ov, 0o644)
	ctx, cancel := context.WithTimeout(context.Background(), 120*time.Second)
	defer cancel()
	cmd := exec.CommandContext(ctx, "go", "test", "-overlay", ovf, "-vet=off", "-count=1", "-timeout", "60s", "-run", "^TestKnownFinding", "-v", ".")
	cmd.Dir = filepath.Join(w.RepoDir, dir)
	cmd.Env = append(os.Environ(), "GOFLAGS=-mod=mod", "GOPROXY=off", "GOSUMDB=off", "GOTOOLCHAIN=local")
	out, _ := cmd.CombinedOutput()
	so := string(out)
	if strings.Contains(so, "STILL-FAILS") {
		return res(true, "recorded input replayed on the real code: still fails")
	}
	if strings.Contains(so, "NO-LONGER-FAILS") {
		return res(false, "recorded input no longer fails")
	}
	return res(false, "known-finding test did not run: "+firstLines(so, 5))
}

// crossCheck (thorough tier): every discharged obligation is re-submitted, with the very SMT text that was proved, to a solver of a
// different family (z3 -> cvc5, cvc5 -> z3 5.1); an `unsat` from both reduces the trust placed in a single solver (A-SOLVER).
// `unknown`/timeout of the second solver is not a failure; `sat` on the same text is a solver disagreement.
func crossCheck(reps []*FuncReport) (map[string]interface{}, []string) {
	type job struct {
		name, file, first string
	}
	var jobs []job
	for _, r := range reps {
		for _, x := range r.Results {
			if x.O.Cover || !x.OK || x.R.File == "" || x.R.Status != "unsat" {
				continue
			}
			jobs = append(jobs, job{x.O.Name, x.R.File, x.R.Solver})
		}
	}
	var mu sync.Mutex
	confirmed, undecided := 0, 0
	bySecond := map[string]int{}
	var bad []string
	var wg sync.WaitGroup
	sem := make(chan struct{}, 16)
	for _, j := range jobs {
		wg.Add(1)
		go func(j job) {
			defer wg.Done()
			sem <- struct{}{}
			defer func() { <-sem }()
			var order []solverSpec
			if strings.HasPrefix(j.first, "cvc5") {
				order = []solverSpec{solvers[0], solvers[1]}
			} else {
				order = []solverSpec{solvers[2]}
				if strings.HasPrefix(j.first, "z3-new") {
					order = append(order, solvers[1])
				} else {
					order = append(order, solvers[0])
				}
			}
			status, who := "unknown", ""
			for _, sp := range order {
				r := runSolver(context.Background(), sp, j.file, 15000)
				if r.Status == "unsat" || r.Status == "sat" {
					status, who = r.Status, sp.name
					break
				}
			}
			mu.Lock()
			defer mu.Unlock()
			switch status {
			case "unsat":
				confirmed++
				bySecond[who]++
			case "sat":
				bad = append(bad, fmt.Sprintf("%s: %s said unsat, %s says sat on %s", j.name, j.first, who, j.file))
			default:
				undecided++
			}
		}(j)
	}
	wg.Wait()
	sort.Strings(bad)
	return map[string]interface{}{
		"discharged_obligations_resubmitted": len(jobs),
		"confirmed_unsat_by_a_second_solver": confirmed,
		"second_solver_undecided_in_15s":     undecided,
		"disagreements":                      len(bad),
		"by_second_solver":                   bySecond,
	}, bad
}
