package main

import (
	"fmt"
	"go/ast"
	"go/types"
	"os"
	"sort"
	"strings"
)

// Memory model.
//
//  * value structs (all leaves scalar, no pointer-receiver methods: Point, Rect, Segment, ...) are SMT datatypes;
//  * every other struct type is a REFERENCE struct: a value of that type is an object reference (Int, 0 = nil for
//    pointers); its scalar / slice / pointer / array-of-scalar fields live in heap field arrays  H_T_f : Ref -> sort(f),
//    a struct-typed field (embedded or not) is a SUB-OBJECT with the derived reference sub_T_f(ref), an element of an
//    array-of-struct field is the sub-object elem_T_f(ref, i);
//  * the current heap is part of the symbolic state (st.ghost["H:key"]); functions list the heap fields they may
//    change on pre-existing objects in a `modifies` clause; everything else is framed.

var valueStructCache = map[types.Type]bool{}

func isExternalNamed(t types.Type) bool {
	n, ok := types.Unalias(t).(*types.Named)
	return ok && n.Obj().Pkg() != nil && !strings.HasPrefix(n.Obj().Pkg().Path(), modPath)
}

func (w *World) isValueStruct(t types.Type) bool {
	t = types.Unalias(t)
	if isExternalNamed(t) {
		return false
	}
	if v, ok := valueStructCache[t]; ok {
		return v
	}
	valueStructCache[t] = false // cycle guard
	res := func() bool {
		st, ok := t.Underlying().(*types.Struct)
		if !ok {
			return false
		}
		for i := 0; i < st.NumFields(); i++ {
			ft := st.Field(i).Type()
			switch u := ft.Underlying().(type) {
			case *types.Basic:
				if u.Info()&types.IsString != 0 {
					return false
				}
			case *types.Struct:
				if !w.isValueStruct(ft) {
					return false
				}
			default:
				return false
			}
		}
		if named, ok := t.(*types.Named); ok {
			for i := 0; i < named.NumMethods(); i++ {
				sig := named.Method(i).Type().(*types.Signature)
				if _, isPtr := sig.Recv().Type().(*types.Pointer); isPtr {
					return false
				}
			}
		}
		return true
	}()
	valueStructCache[t] = res
	return res
}

func (w *World) isRefStruct(t types.Type) bool {
	if t == nil || isExternalNamed(t) {
		return false
	}
	_, ok := types.Unalias(t).Underlying().(*types.Struct)
	return ok && !w.isValueStruct(t)
}

func namedOf(t types.Type) *types.Named {
	t = types.Unalias(t)
	if p, ok := t.(*types.Pointer); ok {
		t = types.Unalias(p.Elem())
	}
	n, _ := t.(*types.Named)
	return n
}

func heapKey(owner *types.Named, f *types.Var) string {
	return shortPkgOf(owner) + "_" + owner.Obj().Name() + "_" + f.Name()
}

// heapCur returns the current heap array of field f.
func (ex *Exec) heapCur(st *State, owner *types.Named, f *types.Var) *Term {
	g := ex.w.heapField(owner, f)
	if st != nil {
		if v, ok := st.ghost["H:"+g.Op]; ok {
			return v.T
		}
	}
	return g
}

func (ex *Exec) heapPut(st *State, owner *types.Named, f *types.Var, t *Term) {
	g := ex.w.heapField(owner, f)
	st.ghost["H:"+g.Op] = tv(ex.define("heap_"+f.Name(), t), nil)
	ex.heapTouched[g.Op] = g
}

func subRefTerm(ref *Term, owner *types.Named, f *types.Var) *Term {
	return mk("sub_"+heapKey(owner, f), SRef, ref)
}

func elemRefTerm(ref *Term, owner *types.Named, f *types.Var, idx *Term) *Term {
	return mk("elem_"+heapKey(owner, f), SRef, ref, idx)
}

// isArrayOfRefStruct reports whether t is [N]S with S a reference struct.
func (w *World) isArrayOfRefStruct(t types.Type) (*types.Array, bool) {
	a, ok := t.Underlying().(*types.Array)
	if !ok {
		return nil, false
	}
	return a, w.isRefStruct(a.Elem())
}

// fieldVal reads field f of the object at ref.
func (ex *Exec) fieldVal(st *State, ref *Term, owner *types.Named, f *types.Var) *Val {
	if ex.w.isRefStruct(f.Type()) {
		r := subRefTerm(ref, owner, f)
		if st != nil {
			ex.assume(st, tImp(tNot(tEq(ref, intLit(0))), tNot(tEq(r, intLit(0)))))
			ex.assume(st, ex.ptrTypeFact(r, types.NewPointer(f.Type())))
			if ex.allocates {
				ex.assume(st, tImp(ex.isAlloc(st, ref), ex.isAlloc(st, r)))
			}
		}
		return tv(r, f.Type())
	}
	if _, ok := ex.w.isArrayOfRefStruct(f.Type()); ok {
		return &Val{T: ref, GoT: f.Type(), ArrOwner: owner, ArrField: f, Mag: -1}
	}
	v := tv(tSelect(ex.heapCur(st, owner, f), ref), f.Type())
	if st != nil {
		ex.assume(st, ex.readFacts(v))
		if isIntType(f.Type()) {
			ex.assume(st, ex.intRange(v.T, f.Type()))
		}
		if v.T.S.IsSlice {
			ex.assume(st, tAnd(mk("<=", SBool, intLit(0), tField(v.T, "len")), mk("<=", SBool, intLit(0), tField(v.T, "off"))))
		}
		if ex.allocates && v.T.S.Eq(SRef) && !isIntType(f.Type()) {
			ex.assume(st, tOr(tEq(v.T, intLit(0)), ex.isAlloc(st, v.T)))
		}
		ex.assume(st, ex.ptrTypeFact(v.T, f.Type()))
	}
	return v
}

// setField writes field f of the object at ref.
func (ex *Exec) setField(st *State, ref *Term, owner *types.Named, f *types.Var, v *Val, where string) {
	if ex.w.isRefStruct(f.Type()) {
		ex.copyObj(st, subRefTerm(ref, owner, f), v.T, namedOf(f.Type()), where)
		return
	}
	if _, ok := ex.w.isArrayOfRefStruct(f.Type()); ok {
		panic(unsupported("whole-array store of struct array at " + where))
	}
	h := ex.heapCur(st, owner, f)
	val := coerceTo(ex.convertTo(st, v, f.Type()), h.S.Elem)
	ex.heapPut(st, owner, f, tStore(h, ref, val))
}

// copyObj copies the object at src into the object at dst (Go struct assignment).
func (ex *Exec) copyObj(st *State, dst, src *Term, named *types.Named, where string) {
	stt := named.Underlying().(*types.Struct)
	for i := 0; i < stt.NumFields(); i++ {
		f := stt.Field(i)
		if ex.w.isRefStruct(f.Type()) {
			ex.copyObj(st, subRefTerm(dst, named, f), subRefTerm(src, named, f), namedOf(f.Type()), where)
			continue
		}
		if _, ok := ex.w.isArrayOfRefStruct(f.Type()); ok {
			panic(unsupported("copy of a struct containing an array of structs at " + where))
		}
		h := ex.heapCur(st, named, f)
		ex.heapPut(st, named, f, tStore(h, dst, tSelect(h, src)))
	}
}

func (ex *Exec) allocTerm(st *State) *Term {
	if v, ok := st.ghost["H:$alloc"]; ok {
		return v.T
	}
	return cnst("H_alloc", arraySort(SRef, SBool))
}

func (ex *Exec) isAlloc(st *State, ref *Term) *Term { return tSelect(ex.allocTerm(st), ref) }

// allocObj allocates a fresh zero-initialised object of reference-struct type.
func (ex *Exec) allocObj(st *State, named *types.Named) *Term {
	r := ex.fresh("new_"+named.Obj().Name(), SRef)
	ex.assume(st, mk(">", SBool, r, intLit(0)))
	ex.assume(st, tNot(ex.isAlloc(st, r)))
	ex.assume(st, tEq(mk("objkind", SInt, r), intLit(0)))
	al := tStore(ex.allocTerm(st), r, tTrue)
	st.ghost["H:$alloc"] = tv(ex.define("alloc", al), nil)
	ex.zeroInit(st, r, named)
	ex.assume(st, tEq(dynType(r), ex.w.typeTag(types.NewPointer(named))))
	return r
}

func (ex *Exec) zeroInit(st *State, r *Term, named *types.Named) {
	stt := named.Underlying().(*types.Struct)
	for i := 0; i < stt.NumFields(); i++ {
		f := stt.Field(i)
		if ex.w.isRefStruct(f.Type()) {
			sr := subRefTerm(r, named, f)
			ex.subRefFacts(st, sr, r)
			ex.assume(st, tEq(dynType(sr), ex.w.typeTag(types.NewPointer(f.Type()))))
			ex.zeroInit(st, sr, namedOf(f.Type()))
			continue
		}
		if _, ok := ex.w.isArrayOfRefStruct(f.Type()); ok {
			// elements are zero-initialised lazily: their scalar fields read as zero via a quantified fact
			a := f.Type().Underlying().(*types.Array)
			en := namedOf(a.Elem())
			est := en.Underlying().(*types.Struct)
			for j := 0; j < est.NumFields(); j++ {
				ef := est.Field(j)
				if ex.w.isRefStruct(ef.Type()) {
					continue
				}
				if _, ok := ex.w.isArrayOfRefStruct(ef.Type()); ok {
					continue
				}
				bvCounter++
				k := cnst(fmt.Sprintf("k$%d", bvCounter), SInt)
				h := ex.heapCur(st, en, ef)
				ex.assume(st, &Term{Op: "forall", BVars: []*Term{k}, S: SBool, Args: []*Term{tEq(tSelect(h, elemRefTerm(r, named, f, k)), ex.zeroTerm(ef.Type()))}})
			}
			continue
		}
		h := ex.heapCur(st, named, f)
		// a fresh object's fields hold zero values: assume rather than store (the reference was unallocated)
		ex.assume(st, tEq(tSelect(h, r), ex.zeroTerm(f.Type())))
	}
}

// subRefFacts: a sub-object is non-nil, allocated with its parent and distinct from top-level objects.
func (ex *Exec) subRefFacts(st *State, sr, parent *Term) {
	ex.assume(st, tNot(tEq(sr, intLit(0))))
	ex.assume(st, tNot(tEq(mk("objkind", SInt, sr), intLit(0))))
	ex.assume(st, tNot(ex.isAlloc(st, sr)))
	al := tStore(ex.allocTerm(st), sr, tTrue)
	st.ghost["H:$alloc"] = tv(ex.define("alloc", al), nil)
}

// ---------------------------------------------------------------- lvalues

type lvalue struct {
	local   types.Object // local variable (value struct / scalar / array)
	ref     *Term        // object reference for heap locations
	owner   *types.Named
	field   *types.Var
	dtPath  []string // remaining path inside a datatype value
	index   *Term    // optional index into an array-valued location (after field / local)
	idxLen  int64
	elemObj *Term // the location is a whole sub-object (struct assignment)
	elemT   *types.Named
}

// objectRefOf evaluates e to an object reference when e denotes an object of reference-struct type
// (value or pointer).
func (ex *Exec) objectRef(st *State, e ast.Expr) (*Term, *types.Named, bool) {
	t := ex.info.TypeOf(e)
	if t == nil {
		return nil, nil, false
	}
	if pt, ok := t.Underlying().(*types.Pointer); ok {
		if n, isNamed := types.Unalias(pt.Elem()).(*types.Named); isNamed && n != nil {
			if _, ok := n.Underlying().(*types.Struct); ok {
				v := ex.eval(st, e)
				if v.Loc != nil {
					return nil, nil, false
				}
				ex.nonNil(st, v.T, ex.pos(e))
				return v.T, n, true
			}
		}
		return nil, nil, false
	}
	if ex.w.isRefStruct(t) {
		v := ex.eval(st, e)
		return v.T, namedOf(t), true
	}
	return nil, nil, false
}

// storeTo handles assignments whose target involves the heap. Returns false when the target is a plain local.
func (ex *Exec) storeHeap(st *State, lhs ast.Expr, v *Val) bool {
	where := ex.pos(lhs)
	switch l := lhs.(type) {
	case *ast.ParenExpr:
		return ex.storeHeap(st, l.X, v)
	case *ast.StarExpr:
		// *p = v  with p pointer to reference struct
		if ref, named, ok := ex.objectRef(st, l.X); ok {
			ex.copyObj(st, ref, v.T, named, where)
			return true
		}
		return false
	case *ast.SelectorExpr:
		sel := ex.info.Selections[l]
		if sel == nil || sel.Kind() != types.FieldVal {
			return false
		}
		// find the innermost object reference along the path
		base, dtPath, ok := ex.heapLoc(st, l)
		if !ok {
			return false
		}
		if len(dtPath) == 0 {
			ex.setField(st, base.ref, base.owner, base.field, v, where)
			return true
		}
		cur := ex.fieldVal(st, base.ref, base.owner, base.field)
		nt := updatePath(cur.T, dtPath, v.T, ex)
		ex.setField(st, base.ref, base.owner, base.field, tv(nt, base.field.Type()), where)
		return true
	case *ast.IndexExpr:
		// a[i] = v where a is a heap array field, or an array of sub-objects
		idx := ex.eval(st, l.Index)
		if se, ok := l.X.(*ast.SelectorExpr); ok {
			base, dtPath, ok := ex.heapLoc(st, se)
			if ok && len(dtPath) == 0 {
				ft := base.field.Type()
				if arr, isRefArr := ex.w.isArrayOfRefStruct(ft); isRefArr {
					ex.boundsCheck(st, idx.T, intLit(arr.Len()), where)
					ex.copyObj(st, elemRefTerm(base.ref, base.owner, base.field, idx.T), v.T, namedOf(arr.Elem()), where)
					return true
				}
				if arr, isArr := ft.Underlying().(*types.Array); isArr {
					ex.boundsCheck(st, idx.T, intLit(arr.Len()), where)
					cur := ex.fieldVal(st, base.ref, base.owner, base.field)
					nv := ex.convertTo(st, v, arr.Elem())
					ex.setField(st, base.ref, base.owner, base.field, tv(tStore(cur.T, idx.T, coerceTo(nv, cur.T.S.Elem)), ft), where)
					return true
				}
				if sl, isSlice := ft.Underlying().(*types.Slice); isSlice {
					// element store through a slice held in a field: the slice's backing array is updated in place
					// (no other alias of that array is modelled: A-GO; destinations are fresh per govframe)
					cur := ex.fieldVal(st, base.ref, base.owner, base.field)
					ex.boundsCheck(st, idx.T, ex.sliceLen(cur.T), where)
					arr := tField(cur.T, "arr")
					nv := ex.convertTo(st, v, sl.Elem())
					narr := tStore(arr, mk("+", SInt, tField(cur.T, "off"), idx.T), coerceTo(nv, arr.S.Elem))
					ex.setField(st, base.ref, base.owner, base.field, tv(tMkDT(cur.T.S, narr, tField(cur.T, "off"), tField(cur.T, "len")), ft), where)
					return true
				}
			}
		}
		return false
	}
	return false
}

func (ex *Exec) boundsCheck(st *State, idx, n *Term, where string) {
	ex.safeN++
	ex.oblige(st, "safe", fmt.Sprintf("safe.index.%d", ex.safeN), tAnd(mk("<=", SBool, intLit(0), idx), mk("<", SBool, idx, n)), where+": index in range")
}

type heapBase struct {
	ref   *Term
	owner *types.Named
	field *types.Var
}

// heapLoc resolves a selector chain x.f1.f2... to (object ref, field) plus the remaining path inside a
// datatype value. ok=false when the chain is rooted in a local value struct.
func (ex *Exec) heapLoc(st *State, e *ast.SelectorExpr) (heapBase, []string, bool) {
	sel := ex.info.Selections[e]
	if sel == nil || sel.Kind() != types.FieldVal {
		return heapBase{}, nil, false
	}
	// object position: e.X is an object (ref struct value or pointer to struct)
	if ref, named, ok := ex.objectRef(st, e.X); ok {
		return ex.walkFields(st, ref, named, sel.Index())
	}
	// e.X is itself a selector into the heap yielding a datatype value
	if inner, ok := e.X.(*ast.SelectorExpr); ok {
		b, p, ok := ex.heapLoc(st, inner)
		if ok {
			// value struct path continues
			t := ex.info.TypeOf(e.X)
			stt, isStruct := t.Underlying().(*types.Struct)
			if isStruct && len(sel.Index()) == 1 {
				return b, append(p, stt.Field(sel.Index()[0]).Name()), true
			}
		}
	}
	if pe, ok := e.X.(*ast.ParenExpr); ok {
		if inner, ok := pe.X.(*ast.SelectorExpr); ok {
			_ = inner
		}
	}
	return heapBase{}, nil, false
}

func (ex *Exec) walkFields(st *State, ref *Term, named *types.Named, path []int) (heapBase, []string, bool) {
	cur := ref
	cn := named
	for k, idx := range path {
		stt := cn.Underlying().(*types.Struct)
		f := stt.Field(idx)
		if k == len(path)-1 {
			return heapBase{cur, cn, f}, nil, true
		}
		switch {
		case ex.w.isRefStruct(f.Type()):
			cur = subRefTerm(cur, cn, f)
			cn = namedOf(f.Type())
		default:
			if pt, ok := f.Type().Underlying().(*types.Pointer); ok {
				v := ex.fieldVal(st, cur, cn, f)
				ex.nonNil(st, v.T, "implicit dereference")
				cur = v.T
				cn = namedOf(pt.Elem())
				continue
			}
			// value struct: remaining path is inside the datatype
			var rest []string
			t := f.Type()
			for _, j := range path[k+1:] {
				s2 := t.Underlying().(*types.Struct)
				rest = append(rest, s2.Field(j).Name())
				t = s2.Field(j).Type()
			}
			return heapBase{cur, cn, f}, rest, true
		}
	}
	return heapBase{}, nil, false
}

// heapWritesOf collects the heap fields a function body may write (syntactic over-approximation).
func (ex *Exec) collectHeapWrites(body *ast.BlockStmt) {
	ex.heapMayWrite = map[string]*Term{}
	addField := func(se *ast.SelectorExpr) {
		sel := ex.info.Selections[se]
		if sel == nil || sel.Kind() != types.FieldVal {
			return
		}
		t := ex.info.TypeOf(se.X)
		n := namedOf(t)
		if n == nil {
			return
		}
		cn := n
		for _, idx := range sel.Index() {
			stt, ok := cn.Underlying().(*types.Struct)
			if !ok {
				return
			}
			f := stt.Field(idx)
			if ex.w.isRefStruct(f.Type()) {
				ex.addAllFields(namedOf(f.Type()))
				cn = namedOf(f.Type())
				continue
			}
			if _, isArr := ex.w.isArrayOfRefStruct(f.Type()); isArr {
				ex.addAllFields(namedOf(f.Type().Underlying().(*types.Array).Elem()))
				return
			}
			g := ex.w.heapField(cn, f)
			ex.heapMayWrite[g.Op] = g
			if nn := namedOf(f.Type()); nn != nil {
				cn = nn
			} else {
				return
			}
		}
	}
	var lhsOf func(e ast.Expr)
	lhsOf = func(e ast.Expr) {
		switch x := e.(type) {
		case *ast.SelectorExpr:
			t := ex.info.TypeOf(x.X)
			if t == nil {
				return
			}
			_, isPtr := t.Underlying().(*types.Pointer)
			if isPtr || ex.w.isRefStruct(t) {
				addField(x)
				return
			}
			lhsOf(x.X) // field of a value struct: the enclosing location is what gets written
		case *ast.IndexExpr:
			lhsOf(x.X)
		case *ast.StarExpr:
			if n := namedOf(ex.info.TypeOf(x.X)); n != nil && ex.w.isRefStruct(n) {
				ex.addAllFields(n)
			}
		case *ast.ParenExpr:
			lhsOf(x.X)
		}
	}
	ast.Inspect(body, func(n ast.Node) bool {
		switch s := n.(type) {
		case *ast.AssignStmt:
			for _, l := range s.Lhs {
				lhsOf(l)
			}
		case *ast.IncDecStmt:
			lhsOf(s.X)
		case *ast.CallExpr:
			// callee modifies clauses
			var callee *types.Func
			switch f := s.Fun.(type) {
			case *ast.Ident:
				callee, _ = ex.info.ObjectOf(f).(*types.Func)
			case *ast.SelectorExpr:
				if sel, ok := ex.info.Selections[f]; ok {
					callee, _ = sel.Obj().(*types.Func)
				} else {
					callee, _ = ex.info.ObjectOf(f.Sel).(*types.Func)
				}
			}
			if callee != nil {
				if cfi := ex.w.ByObj[callee]; cfi != nil {
					if cfc := ex.w.CS.Funcs[cfi.Key]; cfc != nil {
						for _, m := range cfc.Modifies {
							if g := ex.w.heapByName(m); g != nil {
								ex.heapMayWrite[g.Op] = g
							}
						}
					}
				}
			}
		}
		return true
	})
}

func (ex *Exec) addAllFields(n *types.Named) {
	if n == nil {
		return
	}
	stt, ok := n.Underlying().(*types.Struct)
	if !ok {
		return
	}
	for i := 0; i < stt.NumFields(); i++ {
		f := stt.Field(i)
		if ex.w.isRefStruct(f.Type()) {
			ex.addAllFields(namedOf(f.Type()))
			continue
		}
		if _, ok := ex.w.isArrayOfRefStruct(f.Type()); ok {
			ex.addAllFields(namedOf(f.Type().Underlying().(*types.Array).Elem()))
			continue
		}
		g := ex.w.heapField(n, f)
		ex.heapMayWrite[g.Op] = g
	}
}

// heapByName resolves "Type.field" (optionally "pkg.Type.field") to the heap field constant.
func (w *World) heapByName(name string) *Term {
	parts := strings.Split(name, ".")
	var pkgs []string
	var tn, fn string
	switch len(parts) {
	case 2:
		tn, fn = parts[0], parts[1]
		for p := range w.Pkgs {
			pkgs = append(pkgs, p)
		}
		sort.Strings(pkgs)
	case 3:
		pkgs = []string{parts[0]}
		tn, fn = parts[1], parts[2]
	default:
		return nil
	}
	for _, p := range pkgs {
		var tpkg *types.Package
		if pk := w.Pkgs[p]; pk != nil {
			tpkg = pk.Types
		} else {
			// a dependency, named by its package name (rtree.RTree.count)
			for _, mp := range w.Pkgs {
				for _, imp := range mp.Imports {
					if imp.Types != nil && imp.Types.Name() == p {
						tpkg = imp.Types
					}
				}
			}
		}
		if tpkg == nil {
			continue
		}
		obj := tpkg.Scope().Lookup(tn)
		if obj == nil {
			continue
		}
		n, ok := obj.Type().(*types.Named)
		if !ok {
			continue
		}
		stt, ok := n.Underlying().(*types.Struct)
		if !ok {
			continue
		}
		for i := 0; i < stt.NumFields(); i++ {
			if stt.Field(i).Name() == fn {
				return w.heapField(n, stt.Field(i))
			}
		}
	}
	return nil
}

// bodyAllocates: does the body allocate objects (new, composite literal / variable of reference-struct type)?
func bodyAllocates(ex *Exec, body *ast.BlockStmt) bool {
	found := false
	ast.Inspect(body, func(n ast.Node) bool {
		switch x := n.(type) {
		case *ast.CallExpr:
			if id, ok := x.Fun.(*ast.Ident); ok && id.Name == "new" {
				found = true
			}
		case *ast.CompositeLit:
			if t := ex.info.TypeOf(x); t != nil && ex.w.isRefStruct(t) {
				found = true
			}
		case *ast.ValueSpec:
			for _, nm := range x.Names {
				if obj := ex.info.Defs[nm]; obj != nil && ex.w.isRefStruct(obj.Type()) {
					found = true
				}
			}
		}
		return true
	})
	return found
}

// havocHeap: at a loop head every heap field the function may write becomes unknown.
func (ex *Exec) havocHeap(st *State, node ast.Node) {
	var keys []string
	for k := range ex.heapMayWrite {
		keys = append(keys, k)
	}
	sort.Strings(keys)
	for _, k := range keys {
		g := ex.heapMayWrite[k]
		st.ghost["H:"+k] = tv(ex.fresh("heap_"+strings.TrimPrefix(k, "H_"), g.S), nil)
		ex.heapTouched[k] = g
	}
	if ex.allocates {
		old := ex.allocTerm(st)
		na := ex.fresh("alloc", old.S)
		bvCounter++
		r := cnst(fmt.Sprintf("r$%d", bvCounter), SRef)
		st.ghost["H:$alloc"] = tv(na, nil)
		ex.assume(st, &Term{Op: "forall", BVars: []*Term{r}, S: SBool, Args: []*Term{tImp(tSelect(old, r), tSelect(na, r))}})
		if os.Getenv("GOVC_NONILALLOC") == "" {
			ex.assume(st, tNot(tSelect(na, intLit(0))))
		}
	}
}

// ptrTypeFact: a non-nil pointer of static type *T (T a named struct of the module) has dynamic type *T.
func (ex *Exec) ptrTypeFact(t *Term, gt types.Type) *Term {
	if gt == nil {
		return tTrue
	}
	pt, ok := types.Unalias(gt).Underlying().(*types.Pointer)
	if !ok {
		return tTrue
	}
	if _, isPtrType := types.Unalias(gt).(*types.Pointer); !isPtrType {
		return tTrue
	}
	n := namedOf(pt.Elem())
	if n == nil {
		return tTrue
	}
	if _, ok := n.Underlying().(*types.Struct); !ok {
		return tTrue
	}
	return tImp(tNot(tEq(t, intLit(0))), tEq(dynType(t), ex.w.typeTag(types.NewPointer(n))))
}
