package main

import (
	"encoding/json"
	"fmt"
	"go/types"
	"math/big"
	"os"
	"os/exec"
	"path/filepath"
	"strings"
	"time"
)

// ---------------------------------------------------------------- s-expression model parsing

type sx struct {
	atom string
	list []*sx
}

func parseSx(s string) []*sx {
	var stack [][]*sx
	cur := []*sx{}
	i := 0
	for i < len(s) {
		c := s[i]
		switch {
		case c == '(':
			stack = append(stack, cur)
			cur = []*sx{}
			i++
		case c == ')':
			n := &sx{list: cur}
			if n.list == nil {
				n.list = []*sx{}
			}
			if len(stack) == 0 {
				return cur
			}
			cur = stack[len(stack)-1]
			stack = stack[:len(stack)-1]
			cur = append(cur, n)
			i++
		case c == ' ' || c == '\n' || c == '\t' || c == '\r':
			i++
		case c == '|':
			j := strings.IndexByte(s[i+1:], '|')
			cur = append(cur, &sx{atom: s[i : i+j+2]})
			i += j + 2
		default:
			j := i
			for j < len(s) && !strings.ContainsRune("() \n\t\r", rune(s[j])) {
				j++
			}
			cur = append(cur, &sx{atom: s[i:j]})
			i = j
		}
	}
	return cur
}

func (x *sx) String() string {
	if x.list == nil {
		return x.atom
	}
	var ps []string
	for _, e := range x.list {
		ps = append(ps, e.String())
	}
	return "(" + strings.Join(ps, " ") + ")"
}

// ratOf evaluates a numeric model value.
func ratOf(x *sx) (*big.Rat, bool) {
	if x.list == nil {
		r := new(big.Rat)
		if _, ok := r.SetString(x.atom); ok {
			return r, true
		}
		return nil, false
	}
	if len(x.list) == 0 {
		return nil, false
	}
	op := x.list[0].atom
	switch op {
	case "-":
		if len(x.list) == 2 {
			a, ok := ratOf(x.list[1])
			if !ok {
				return nil, false
			}
			return new(big.Rat).Neg(a), true
		}
		a, ok1 := ratOf(x.list[1])
		b, ok2 := ratOf(x.list[2])
		if !ok1 || !ok2 {
			return nil, false
		}
		return new(big.Rat).Sub(a, b), true
	case "/":
		a, ok1 := ratOf(x.list[1])
		b, ok2 := ratOf(x.list[2])
		if !ok1 || !ok2 || b.Sign() == 0 {
			return nil, false
		}
		return new(big.Rat).Quo(a, b), true
	case "to_real", "i2r":
		return ratOf(x.list[1])
	}
	return nil, false
}

// parseModel returns value s-expressions in order of the get-value list.
func parseModel(out string) []*sx {
	i := strings.Index(out, "\n")
	if i < 0 {
		return nil
	}
	top := parseSx(out[i+1:])
	if len(top) == 0 || top[0].list == nil {
		return nil
	}
	var vals []*sx
	for _, pair := range top[0].list {
		if pair.list != nil && len(pair.list) == 2 {
			vals = append(vals, pair.list[1])
		}
	}
	return vals
}

// ---------------------------------------------------------------- concrete values

// CVal is a concrete value tree mirroring the sort structure.
type CVal struct {
	S      *Sort
	Rat    *big.Rat
	Bool   bool
	Fields []*CVal
	Elems  []*CVal // slices
	Len    int
	Bad    string
}

// buildCVal consumes model values in flattenForModel order.
func buildCVal(s *Sort, vals []*sx, pos *int) *CVal {
	cv := &CVal{S: s}
	next := func() *sx {
		if *pos >= len(vals) {
			return &sx{atom: "0"}
		}
		v := vals[*pos]
		*pos++
		return v
	}
	switch s.Kind {
	case KBool:
		cv.Bool = next().atom == "true"
	case KInt, KReal:
		r, ok := ratOf(next())
		if !ok {
			cv.Bad = "non-numeric model value"
			r = new(big.Rat)
		}
		cv.Rat = r
	case KDT:
		if s.IsSlice {
			l := buildCVal(SInt, vals, pos)
			n := 0
			if l.Rat != nil && l.Rat.IsInt() {
				n = int(l.Rat.Num().Int64())
			}
			cv.Len = n
			for k := 0; k < 8; k++ {
				e := buildCVal(s.Elem, vals, pos)
				if k < n {
					cv.Elems = append(cv.Elems, e)
				}
			}
			if n > 8 || n < 0 {
				cv.Bad = fmt.Sprintf("slice length %d outside replay window", n)
			}
			return cv
		}
		for _, f := range s.Fields {
			cv.Fields = append(cv.Fields, buildCVal(f.S, vals, pos))
		}
	default:
		cv.Bad = "unsupported sort " + s.String()
	}
	return cv
}

func (c *CVal) bad() string {
	if c.Bad != "" {
		return c.Bad
	}
	for _, f := range c.Fields {
		if b := f.bad(); b != "" {
			return b
		}
	}
	for _, f := range c.Elems {
		if b := f.bad(); b != "" {
			return b
		}
	}
	return ""
}

func ratIsFloat(r *big.Rat) bool {
	f, exact := r.Float64()
	_ = f
	return exact
}

// goLit renders a concrete value as a Go expression of type gt (in-package qualifier).
func (w *World) goLit(c *CVal, gt types.Type, pkg *types.Package) (string, error) {
	q := func(p *types.Package) string {
		if p == pkg {
			return ""
		}
		return p.Name()
	}
	switch c.S.Kind {
	case KBool:
		return fmt.Sprint(c.Bool), nil
	case KInt:
		if !c.Rat.IsInt() {
			return "", fmt.Errorf("non-integer value for int")
		}
		return fmt.Sprintf("%s(%s)", types.TypeString(gt, q), c.Rat.Num().String()), nil
	case KReal:
		if !ratIsFloat(c.Rat) {
			return "", fmt.Errorf("value %s is not a binary64", c.Rat.String())
		}
		f, _ := c.Rat.Float64()
		return fmt.Sprintf("float64(%v)", f), nil
	case KDT:
		if c.S.IsSlice {
			sl, ok := gt.Underlying().(*types.Slice)
			if !ok {
				return "", fmt.Errorf("slice sort for non-slice type")
			}
			var es []string
			for _, e := range c.Elems {
				s, err := w.goLit(e, sl.Elem(), pkg)
				if err != nil {
					return "", err
				}
				es = append(es, s)
			}
			return types.TypeString(gt, q) + "{" + strings.Join(es, ", ") + "}", nil
		}
		st, ok := gt.Underlying().(*types.Struct)
		if !ok {
			return "", fmt.Errorf("struct sort for %s", gt)
		}
		var fs []string
		for i, f := range c.Fields {
			s, err := w.goLit(f, st.Field(i).Type(), pkg)
			if err != nil {
				return "", err
			}
			fs = append(fs, st.Field(i).Name()+": "+s)
		}
		return types.TypeString(gt, q) + "{" + strings.Join(fs, ", ") + "}", nil
	}
	return "", fmt.Errorf("unsupported sort %s", c.S)
}

// term renders the concrete value as an SMT term.
func (c *CVal) term() *Term {
	switch c.S.Kind {
	case KBool:
		if c.Bool {
			return tTrue
		}
		return tFalse
	case KInt:
		n := c.Rat.Num()
		if n.Sign() < 0 {
			return mk("-", SInt, cnst(new(big.Int).Neg(n).String(), SInt))
		}
		return cnst(n.String(), SInt)
	case KReal:
		num, den := c.Rat.Num(), c.Rat.Denom()
		neg := num.Sign() < 0
		an := new(big.Int).Abs(num)
		var t *Term
		if den.IsInt64() && den.Int64() == 1 {
			t = cnst(an.String()+".0", SReal)
		} else {
			t = mk("/", SReal, cnst(an.String()+".0", SReal), cnst(den.String()+".0", SReal))
		}
		if neg {
			return mk("-", SReal, t)
		}
		return t
	case KDT:
		if c.S.IsSlice {
			arr := &Term{Op: "(as const " + c.S.Fields[0].S.String() + ")", Args: []*Term{zeroOfSortStatic(c.S.Elem)}, S: c.S.Fields[0].S}
			var t *Term = arr
			for i, e := range c.Elems {
				t = tStore(t, intLit(int64(i)), e.term())
			}
			return tMkDT(c.S, t, intLit(0), intLit(int64(c.Len)))
		}
		args := make([]*Term, len(c.Fields))
		for i, f := range c.Fields {
			args[i] = f.term()
		}
		return tMkDT(c.S, args...)
	}
	panic("term of " + c.S.String())
}

func zeroOfSortStatic(s *Sort) *Term {
	ex := &Exec{}
	return ex.zeroOfSort(s)
}

// leafExprs lists Go expressions and sorts for the scalar leaves of a value of type gt.
func leafExprs(expr string, s *Sort, gt types.Type) (exprs []string) {
	switch s.Kind {
	case KBool, KInt, KReal:
		return []string{expr}
	case KDT:
		if s.IsSlice {
			return nil
		}
		st, ok := gt.Underlying().(*types.Struct)
		if !ok {
			return nil
		}
		for i, f := range s.Fields {
			exprs = append(exprs, leafExprs(expr+"."+f.Name, f.S, st.Field(i).Type())...)
		}
	}
	return
}

func buildFromLeaves(s *Sort, leaves []string, pos *int) *CVal {
	cv := &CVal{S: s}
	switch s.Kind {
	case KBool:
		cv.Bool = leaves[*pos] == "true"
		*pos++
	case KInt, KReal:
		r := new(big.Rat)
		str := leaves[*pos]
		*pos++
		if _, ok := r.SetString(str); !ok {
			cv.Bad = "non-finite result " + str
			r = new(big.Rat)
		}
		cv.Rat = r
	case KDT:
		for _, f := range s.Fields {
			cv.Fields = append(cv.Fields, buildFromLeaves(f.S, leaves, pos))
		}
	}
	return cv
}

// ---------------------------------------------------------------- replay

type ReplayFile struct {
	Property   string            `json:"property"`
	Obligation string            `json:"obligation"`
	Function   string            `json:"function"`
	Source     string            `json:"source"`
	Solver     string            `json:"solver"`
	Status     string            `json:"solver_status"`
	Inputs     map[string]string `json:"inputs,omitempty"`
	GoTest     string            `json:"go_test,omitempty"`
	Observed   map[string]string `json:"observed,omitempty"`
	Violated   []string          `json:"violated_clauses,omitempty"`
	Verdict    string            `json:"verdict"`
	Detail     string            `json:"detail,omitempty"`
	SolverOut  string            `json:"solver_output,omitempty"`
	SMTFile    string            `json:"smt_file,omitempty"`
}

type replayOutcome struct {
	Confirmed bool
	Verdict   string // confirmed, not-confirmed, no-model, unsupported
	Detail    string
	File      ReplayFile
}

// replay runs the real function on the model's inputs and evaluates every ensures clause.
func (w *World) replay(res *OblResult, prop string) (out *replayOutcome) {
	o := res.O
	out = &replayOutcome{File: ReplayFile{Property: prop, Obligation: o.Name, Function: o.Func, Source: o.Src, Solver: res.R.Solver, Status: res.R.Status, SMTFile: res.R.File}}
	defer func() {
		// the replay harness builds Go values from the model; an input of a kind it cannot build (strings, objects) must not
		// take the check down: the violation is then reported without a replayed input
		if r := recover(); r != nil {
			out.Confirmed = false
			out.Verdict = "not-confirmed"
			out.Detail = fmt.Sprintf("the solver has a model but the replay harness cannot build this input (%v)", r)
			out.File.Verdict = out.Verdict
			out.File.Detail = out.Detail
		}
	}()
	out.File.SolverOut = firstLines(res.R.Output, 12)
	if res.R.Status != "sat" {
		out.Verdict = "no-model"
		out.Detail = "solver returned " + res.R.Status + " (no model)"
		out.File.Verdict = out.Verdict
		out.File.Detail = out.Detail
		return out
	}
	fi := w.Funcs[o.Func]
	fc := w.CS.Funcs[o.Func]
	if fi == nil || fi.Decl == nil || o.ex == nil {
		out.Verdict = "unsupported"
		out.Detail = "not a function obligation"
		out.File.Verdict = out.Verdict
		return out
	}
	vals := parseModel(res.R.Output)
	pos := 0
	inputs := map[string]*CVal{}
	for _, in := range o.Inputs {
		cv := buildCVal(in.Term.S, vals, &pos)
		inputs[in.Name] = cv
		out.File.Inputs = mapPut(out.File.Inputs, in.Name, cv.term().String())
	}
	oc := w.runReal(fi, fc, o.Inputs, inputs)
	out.File.GoTest = oc.src
	out.File.Observed = oc.observed
	if oc.err != "" {
		out.Verdict = "unsupported"
		out.Detail = oc.err
		out.File.Verdict = out.Verdict
		out.File.Detail = oc.err
		return out
	}
	if oc.panicked != "" {
		out.Confirmed = true
		out.Verdict = "confirmed"
		out.Detail = "real code panics: " + oc.panicked
		out.File.Verdict = out.Verdict
		out.File.Detail = out.Detail
		return out
	}
	if oc.hung {
		out.Confirmed = true
		out.Verdict = "confirmed"
		out.Detail = "real code did not return within the replay timeout"
		out.File.Verdict = out.Verdict
		out.File.Detail = out.Detail
		return out
	}
	violated := w.checkEnsuresConcrete(fi, fc, o.Inputs, inputs, oc.results)
	out.File.Violated = violated
	if len(violated) > 0 {
		out.Confirmed = true
		out.Verdict = "confirmed"
		out.Detail = "real code violates: " + strings.Join(violated, "; ")
	} else {
		out.Verdict = "not-confirmed"
		out.Detail = "real code satisfies every ensures clause on the model's inputs (model exploits an abstraction or an intermediate obligation)"
	}
	out.File.Verdict = out.Verdict
	out.File.Detail = out.Detail
	return out
}

func mapPut(m map[string]string, k, v string) map[string]string {
	if m == nil {
		m = map[string]string{}
	}
	m[k] = v
	return m
}

type realOutcome struct {
	src      string
	observed map[string]string
	results  map[string]*CVal
	panicked string
	hung     bool
	err      string
}

// runReal generates an in-package test, injects it with -overlay and runs the real function.
func (w *World) runReal(fi *FuncInfo, fc *FuncContract, ins []ModelVar, inputs map[string]*CVal) *realOutcome {
	oc := &realOutcome{observed: map[string]string{}, results: map[string]*CVal{}}
	pkg := fi.Pkg.Types
	var b strings.Builder
	fmt.Fprintf(&b, "package %s\n\nimport (\n\t\"fmt\"\n\t\"testing\"\n)\n\nfunc TestGovcReplay(t *testing.T) {\n", pkg.Name())
	b.WriteString("\tdefer func() {\n\t\tif r := recover(); r != nil {\n\t\t\tfmt.Printf(\"GOVC-PANIC %v\\n\", r)\n\t\t}\n\t}()\n")
	rn, pns := paramNames(fi)
	argExpr := map[string]string{}
	for _, in := range ins {
		if strings.HasPrefix(in.Name, "*") {
			continue
		}
		cv := inputs[in.Name]
		if pt, ok := in.GoT.Underlying().(*types.Pointer); ok {
			if _, isBasic := pt.Elem().Underlying().(*types.Basic); isBasic {
				cell := inputs["*"+in.Name]
				lit, err := w.goLit(cell, pt.Elem(), pkg)
				if err != nil {
					oc.err = "input " + in.Name + ": " + err.Error()
					return oc
				}
				fmt.Fprintf(&b, "\tcell_%s := %s\n", in.Name, lit)
				argExpr[in.Name] = "&cell_" + in.Name
				continue
			}
			oc.err = "replay cannot construct pointer argument " + in.Name + " of type " + in.GoT.String()
			return oc
		}
		if _, ok := in.GoT.Underlying().(*types.Interface); ok {
			oc.err = "replay cannot construct interface argument " + in.Name
			return oc
		}
		if b := cv.bad(); b != "" {
			oc.err = "input " + in.Name + ": " + b
			return oc
		}
		lit, err := w.goLit(cv, in.GoT, pkg)
		if err != nil {
			oc.err = "input " + in.Name + ": " + err.Error()
			return oc
		}
		fmt.Fprintf(&b, "\tin_%s := %s\n", sanitize(in.Name), lit)
		argExpr[in.Name] = "in_" + sanitize(in.Name)
	}
	var args []string
	for _, p := range pns {
		a, ok := argExpr[p]
		if !ok {
			oc.err = "replay cannot construct argument " + p
			return oc
		}
		args = append(args, a)
	}
	call := fi.Obj.Name() + "(" + strings.Join(args, ", ") + ")"
	if fi.Recv != nil {
		call = argExpr[rn] + "." + call
	}
	rnames := resultNames(fi.Sig)
	var lhs []string
	for i := range rnames {
		lhs = append(lhs, fmt.Sprintf("r%d", i))
	}
	if len(lhs) > 0 {
		fmt.Fprintf(&b, "\t%s := %s\n", strings.Join(lhs, ", "), call)
	} else {
		fmt.Fprintf(&b, "\t%s\n", call)
	}
	type leafRef struct {
		name string
		s    *Sort
		n    int
	}
	var refs []leafRef
	for i, nm := range rnames {
		rt := fi.Sig.Results().At(i).Type()
		s := w.sortOf(rt)
		les := leafExprs(fmt.Sprintf("r%d", i), s, rt)
		if les == nil && !(s.Kind == KBool || s.Kind == KInt || s.Kind == KReal) {
			oc.err = "replay cannot observe result of type " + rt.String()
			return oc
		}
		for _, le := range les {
			fmt.Fprintf(&b, "\tfmt.Printf(\"GOVC-LEAF %%v\\n\", %s)\n", le)
		}
		refs = append(refs, leafRef{nm, s, len(les)})
	}
	for _, in := range ins {
		if strings.HasPrefix(in.Name, "*") {
			fmt.Fprintf(&b, "\tfmt.Printf(\"GOVC-CELL %s %%v\\n\", cell_%s)\n", in.Name[1:], in.Name[1:])
		}
	}
	b.WriteString("\tfmt.Println(\"GOVC-DONE\")\n}\n")
	oc.src = b.String()
	// overlay
	tmp, err := os.MkdirTemp("", "govc-replay-")
	if err != nil {
		oc.err = err.Error()
		return oc
	}
	defer os.RemoveAll(tmp)
	testFile := filepath.Join(tmp, "zz_govc_replay_test.go")
	os.WriteFile(testFile, []byte(oc.src), 0o644)
	pkgDir := filepath.Dir(fi.File)
	ov := map[string]map[string]string{"Replace": {filepath.Join(pkgDir, "zz_govc_replay_test.go"): testFile}}
	ovb, _ := json.Marshal(ov)
	ovFile := filepath.Join(tmp, "ov.json")
	os.WriteFile(ovFile, ovb, 0o644)
	cmd := exec.Command("go", "test", "-overlay", ovFile, "-vet=off", "-count=1", "-v", "-timeout", "60s", "-run", "^TestGovcReplay$", ".")
	cmd.Dir = pkgDir
	cmd.Env = append(os.Environ(), "GOFLAGS=-mod=mod", "GOPROXY=off", "GOSUMDB=off", "GOTOOLCHAIN=local")
	t0 := time.Now()
	outb, _ := cmd.CombinedOutput()
	_ = t0
	outs := string(outb)
	var leaves []string
	done := false
	for _, l := range strings.Split(outs, "\n") {
		switch {
		case strings.HasPrefix(l, "GOVC-LEAF "):
			leaves = append(leaves, strings.TrimPrefix(l, "GOVC-LEAF "))
		case strings.HasPrefix(l, "GOVC-PANIC "):
			oc.panicked = strings.TrimPrefix(l, "GOVC-PANIC ")
		case strings.HasPrefix(l, "GOVC-CELL "):
			f := strings.SplitN(strings.TrimPrefix(l, "GOVC-CELL "), " ", 2)
			oc.observed["*"+f[0]] = f[1]
		case l == "GOVC-DONE":
			done = true
		}
	}
	if oc.panicked != "" {
		return oc
	}
	if strings.Contains(outs, "panic: test timed out") {
		oc.hung = true
		return oc
	}
	if !done {
		oc.err = "replay test did not run: " + firstLines(outs, 8)
		return oc
	}
	pos := 0
	for _, r := range refs {
		cv := buildFromLeaves(r.s, leaves, &pos)
		oc.results[r.name] = cv
		oc.observed[r.name] = cv.term().String()
	}
	// cells
	for _, in := range ins {
		if strings.HasPrefix(in.Name, "*") {
			if v, ok := oc.observed[in.Name]; ok {
				p := 0
				oc.results[in.Name] = buildFromLeaves(in.Term.S, []string{v}, &p)
			}
		}
	}
	return oc
}

// checkEnsuresConcrete evaluates every ensures clause on concrete inputs and observed results.
func (w *World) checkEnsuresConcrete(fi *FuncInfo, fc *FuncContract, ins []ModelVar, inputs map[string]*CVal, results map[string]*CVal) []string {
	names := map[string]*Val{}
	oldNames := map[string]*Val{}
	for _, in := range ins {
		v := tv(inputs[in.Name].term(), in.GoT)
		oldNames[in.Name] = v
		if strings.HasPrefix(in.Name, "*") {
			if r, ok := results[in.Name]; ok {
				names[in.Name] = tv(r.term(), in.GoT)
				continue
			}
		}
		names[in.Name] = v
	}
	rnames := resultNames(fi.Sig)
	for i, nm := range rnames {
		if r, ok := results[nm]; ok {
			names[nm] = tv(r.term(), fi.Sig.Results().At(i).Type())
			if len(rnames) == 1 {
				names["result"] = names[nm]
			}
		}
	}
	pkg := shortPkg(fi.Pkg.PkgPath)
	ex := &Exec{w: w, arith: "exact"}
	for _, g := range fc.Ghosts {
		gs, gt := w.resolveSpecType(pkg, g.Type)
		names[g.Name] = tv(ex.fresh("gh_"+g.Name, gs), gt)
	}
	var violated []string
	for i, c := range fc.Ensures {
		env := &SpecEnv{names: mergeNames(names, nil), pkg: pkg, w: w, old: &SpecEnv{names: oldNames, pkg: pkg, w: w}}
		// witness names ($x) become free constants: clause must be satisfiable
		hasWitness := strings.Contains(c.Src, "$")
		if hasWitness {
			for _, nm := range dollarNames(c.Src) {
				env.names[nm] = tv(ex.fresh("wit", SReal), nil)
			}
		}
		t := w.trSpec(c.E, env).T
		var o *Obligation
		if hasWitness {
			// violated iff no witness makes it true: check sat of the clause itself
			o = &Obligation{Name: "replay", Guard: t, Goal: tFalse, Cover: true, NDecl: len(ex.decls), Unfold: 64, ex: ex}
		} else {
			o = &Obligation{Name: "replay", Guard: tTrue, Goal: t, NDecl: len(ex.decls), Unfold: 64, ex: ex}
		}
		tmp, _ := os.CreateTemp("", "govc-ground-*.smt2")
		tmp.WriteString(o.smt(w, nil, nil, false))
		tmp.Close()
		r := raceSolvers(tmp.Name(), 10000, nil)
		os.Remove(tmp.Name())
		if hasWitness {
			if r.Status == "unsat" {
				violated = append(violated, clauseName(c, i)+": "+c.Src)
			}
		} else if r.Status == "sat" {
			violated = append(violated, clauseName(c, i)+": "+c.Src)
		}
	}
	return violated
}

func dollarNames(s string) []string {
	seen := map[string]bool{}
	var out []string
	for i := 0; i < len(s); i++ {
		if s[i] == '$' {
			j := i + 1
			for j < len(s) && (s[j] == '_' || (s[j] >= 'a' && s[j] <= 'z') || (s[j] >= 'A' && s[j] <= 'Z') || (s[j] >= '0' && s[j] <= '9')) {
				j++
			}
			if !seen[s[i:j]] {
				seen[s[i:j]] = true
				out = append(out, s[i:j])
			}
		}
	}
	return out
}

func writeReplayFile(dir string, rf *ReplayFile) string {
	os.MkdirAll(dir, 0o755)
	p := filepath.Join(dir, sanitizeFile(rf.Obligation)+".json")
	b, _ := json.MarshalIndent(rf, "", " ")
	os.WriteFile(p, b, 0o644)
	return p
}
